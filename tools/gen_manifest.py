"""Regenerate MANIFEST.json from the table below (single source of truth for commands)."""
import json
import os

HERE = os.path.dirname(os.path.dirname(os.path.abspath(__file__)))

CLAIMED = {
    "C18": dict(
        level="exploration", design="DESIGN.md 3/C18",
        text=("State-machine comparison: Alias / DeprecatedAlias configurations passthrough x transform x fallback x path shape "
              "(plain, dotted, [\"key\"], mixed) on plain classes and on spec classes (alias as managed attribute); seeded sequences "
              "over {read / write / delete alias, read / write / delete target, mutate a returned fallback, with_al / with_target / "
              "reset_al on spec hosts, deepcopy and continue on either instance} with injected faults in the transform; value, "
              "exception class, target state of every live instance and the warnings of every access (DeprecatedAlias: exactly "
              "DeprecationWarning on every access, Alias: none) are compared with a two-variable (target, local override) model."),
        note="Trusted: the reference model in specsim/props/c18.py; the warnings filter is a controlled global (catch_warnings + always).",
        technique="deterministic simulation: seeded operation sequences with injected callback faults vs explicit two-variable state-machine model",
    ),    "C12": dict(
        level="exploration", design="DESIGN.md 3/C12",
        text=("State-machine comparison: spec_property in all 16 combinations of (overridable, cache, custom setter, custom deleter) "
              "on a plain class, a spec class without annotation, with annotation, with annotation + preparer, with a conforming and "
              "a non-conforming getter; classproperty with cache x cache_per_subclass x overridable on plain and spec classes over a "
              "three-class hierarchy, accessed through classes and instances. Seeded sequences over {read, assign (conforming / "
              "ill-typed), delete, change underlying state} with injected faults in getter / setter / deleter / preparer (a getter "
              "that raises must not leave a cache entry); every value, exception class, slot state and underlying state is compared "
              "with the explicit protocol model after every operation."),
        note="Trusted: PropModel / ClassPropModel in specsim/props/c12.py. Class-level assignment to a classproperty rebinds the descriptor (no metaclass) and is not generated.",
        technique="deterministic simulation: seeded operation sequences with injected callback faults vs explicit state-machine model",
    ),    "C11": dict(
        level="exploration", design="DESIGN.md 3/C11",
        text=("Per run a dependency graph is generated (managed int / list attributes, an unmanaged attribute, cached and uncached "
              "spec_properties with invalidated_by lists incl. '*', attribute -> attribute -> property and property -> property "
              "chains, a dependant declared in a spec or plain subclass, caches filled in __post_init__) and a seeded history "
              "interleaves reads, overrides and every mutation entry point (setattr, delattr, scalar helper, element helper, update, "
              "transform, reset; in place and copy-on-write; some failing through an ill-typed value or an injected callback fault). "
              "After every step every property read must equal a cache-free reference evaluation of current state, invalidated_by "
              "attributes whose dependency changed are back at their default, and after an unrelated or failed mutation every cache "
              "slot is the same object as before."),
        note="Trusted: the reference evaluator / invalidation closure in specsim/props/c11.py. Any property may be overridden by assignment and the override / cache withdrawn by del; whether an override of an affected property survives is not part of the statement (the model follows the slot), what depends on it is judged.",
        technique="deterministic simulation: seeded dependency graphs x operation histories with injected faults, cache-free reference evaluation",
    ),    "C10": dict(
        level="exploration", design="DESIGN.md 3/C10",
        text=("Invariants over the live instance pool of seeded histories (classes additionally hold bound methods, functions, "
              "classes and modules at seeded attribute positions): == / != in both directions on seeded pairs and triples (same "
              "class, class and subclass) are reflexive, symmetric, transitive and equal the reference attribute-wise comparison "
              "(compare=False ignored, missing equals only missing, bound methods by function); every copy-on-write result is "
              "compared with its receiver (pairs differing in exactly the changed attributes, at every declaration position); "
              "deepcopy(x) == x; re-construction from own attribute values is equal; repr never raises (missing values, self references directly or through list / dict / KeyedList / KeyedSet) and lists exactly the repr-enabled attributes in declaration order. No fault or "
              "schedule bears on these relations; the simulator contributes the reachable-state pool."),
        note="Trusted: reference comparison and repr parser in specsim/props/c10.py. Copying / comparing cyclic structures is not claimed by the statement and not checked.",
        technique="deterministic simulation: seeded operation histories as state-pool generator, relational invariants vs reference comparison",
    ),    "C03": dict(
        level="exploration", design="DESIGN.md 3/C03",
        text=("After every operation of a seeded history (45% of operations carry one non-conforming value aimed at one position of "
              "one route: constructor keyword, dict-to-spec casting, obj.a = v, scalar helpers, element helpers by index / key / value, "
              "nested keyword updates, update / transform, transforms returning a wrong element, preparers and item preparers returning "
              "a wrong value) an independently written reference checker verifies every managed attribute of every live instance "
              "against its annotation, recursively (elements, keys and values, Union / Optional arms, Literal choices, nested spec "
              "attributes, validated predicates, key-index coherence of KeyedList / KeyedSet)."),
        note="Trusted: the reference conformance checker in specsim/props/c03.py. Direct mutation of contained lists / dicts is not generated (out of scope by the statement).",
        technique="deterministic simulation: seeded operation histories with ill-formed inputs, reference type-conformance invariant after every step",
    ),    "C05": dict(
        level="exploration", design="DESIGN.md 3/C05",
        text=("Every scalar / top-level helper call of a seeded history (every documented call form: value, keywords, dict-as-"
              "keywords, value + keywords, transform + attribute transforms; flags _inplace and _if; sentinels) is compared with "
              "models.HostModel (prepared value, nested spec built / merged from keywords, f(old), defaults, several changes at once, "
              "invalidated_by resets, untouched attributes unchanged), with identity rules (_inplace returns the receiver, _if=False "
              "and UNCHANGED are no-ops returning the receiver) and with metamorphic relations run on clones: copy-run == in-place-run, "
              "obj.a = v == with_a(v, _inplace=True), update(a=.., b=..) == with_a(..).with_b(..), nested keywords == constructing the "
              "nested value first, MISSING keyword values skipped."),
        note=("Trusted: models.HostModel (forms the documentation does not determine are counted as unmodelled; the metamorphic "
              "relations still apply to them). with_<a>() without a value is not a no-op (pinned by test_class_attribute_masking)."),
        technique="deterministic simulation: seeded operation histories vs executable reference model + metamorphic relations on clones",
    ),    "C06": dict(
        level="exploration", design="DESIGN.md 3/C06",
        text=("Every element-helper call (with_/update_/transform_/without_<singular>) of a seeded history over generated classes "
              "with List/Dict/Set of ints, List/Dict of (keyed) spec items, KeyedList and KeyedSet attributes is executed on the real "
              "instance and on a plain-container reference model written from the documentation: append / replace / insert at index "
              "(negative, 0, len, out of range), index-unless-element-type defaulting and _by_index overrides, first-of-equal-values, "
              "falsy elements and keys, key promotion, keyword construction / update of spec elements, item preparers, container "
              "creation when missing, missing targets raising IndexError / KeyError / ValueError, unknown keywords raising TypeError. "
              "Result content and order must equal the model's; in the in-place variant untouched spec elements keep their identity."),
        note="Trusted: models.ElementModel (calls whose outcome the documentation does not determine are counted as unmodelled and only executed).",
        technique="deterministic simulation: seeded operation histories vs executable plain-container reference model",
    ),    "C07": dict(
        level="exploration", design="DESIGN.md 3/C07",
        text=("Twin histories: every generated class spec is materialised twice, with one class frozen (host and thereby its spec / "
              "plain subclass, or the nested Leaf / KItem class) and without; the same seeded operations (assignment, deletion, every "
              "helper with and without _inplace, deepcopy, nested writes through a parent, ill-formed inputs) drive both. After every "
              "operation: identity snapshots of all pre-existing frozen instances unchanged (cache slots of cached properties "
              "tolerated); in-place operations on frozen instances raise FrozenInstanceError whenever the twin succeeds; every other "
              "operation has the twin's outcome class, a distinct result object and the twin's abstract result state."),
        note=("Trusted: snapshot walker; the non-frozen twin (same library code) as reference for copy-on-write results (differential). "
              "Direct writes to nested values of non-frozen classes reachable from a frozen instance are out of scope (their own API)."),
        technique="deterministic simulation: seeded twin operation histories (frozen vs non-frozen), identity-snapshot and differential oracles",
    ),    "C08": dict(
        level="exploration", design="DESIGN.md 3/C08",
        text=("Seeded histories over several instances of a generated class and its spec / plain subclass (every default style: "
              "none, literal, mutable literal, Attr(default=), Attr(default_factory=), dataclasses.field, re-default / re-declare in "
              "a subclass), constructed with and without retained arguments; around every operation (in-place API writes at any "
              "depth, direct container mutation, copy-on-write helpers) the identity snapshot of class-level defaults, retained "
              "constructor arguments and all other instances must not move; after reset_<a> / reset / del the attribute equals a "
              "freshly constructed instance's, is not (and shares nothing with) the class-level object, and is absent without default."),
        note=("Trusted: snapshot walker; fresh-instance comparison uses the library's own constructor as the reference for defaults "
              "(metamorphic). Restricted to init-enabled, non-do_not_copy attributes as the property says."),
        technique="deterministic simulation: seeded multi-instance operation histories, identity-snapshot oracle + metamorphic reset-vs-fresh-instance relation",
    ),    "C02": dict(
        level="exploration", design="DESIGN.md 3/C02",
        text=("After every copy-on-write helper / deepcopy of a seeded history over generated spec classes: (static) the "
              "identity-graph intersection of receiver and result, minus the graph of the freshly built arguments and the values "
              "of do_not_copy attributes, must be empty, and every do_not_copy attribute not targeted by the call is carried by "
              "identity; (dynamic) a seeded tail of in-place operations on either side -- API writes at any nesting depth, direct "
              "container mutation, some cut short by an injected callback fault -- must leave the identity snapshot of the other "
              "side unchanged."),
        note=("Trusted: the snapshot walker (spec instances, list/dict/set/tuple, KeyedList/KeyedSet, Box). Transform pool restricted "
              "to functions returning deeply new objects, as the quantifier says; init=False attributes excluded (instance.attr is "
              "the class-level object by design of the constructor)."),
        technique="deterministic simulation: seeded operation histories with injected callback faults, identity-graph and differential-mutation oracles",
    ),    "C14": dict(
        level="exploration", design="DESIGN.md 3/C14",
        text=("Seeded operation histories on a real KeyedSet against the reference model 'ordered mapping key -> most recently "
              "added item', over 14 item universes (self-keyed str/int, tuples, unhashable lists and tuples unhashable only by content "
              "with an explicit key function, non-injective / repr / attribute-reading key functions, keyed spec items; untyped and "
              "KeyedSet[T, K]) x enforce_item_equivalence on/off: add / discard / remove / pop / "
              "clear / membership / lookup with item-or-key arguments (existing item, existing key, equal copy, same key other "
              "payload, fresh, missing), |, &, -, ^, <=, <, >=, >, ==, !=, isdisjoint and |=, &=, -=, ^= against KeyedSet and "
              "built-in set operands, compared on keys; key-function fault injection at every invocation index."),
        note=("Trusted: the reference mapping model in specsim/props/c14.py. Built-in set operands are judged on keys like "
              "KeyedSet operands (known findings C14-KF1 / C14-KF2 are the library's deviations there). Where the statement does "
              "not pin the semantics (== with unequal payloads under a shared key, which item wins a collision under enforcement "
              "inside bulk operators) the check only requires coherence, never a particular result."),
        technique="deterministic simulation: seeded operation histories vs executable reference model, key-function fault injection",
    ),    "C13": dict(
        level="exploration", design="DESIGN.md 3/C13",
        text=("Seeded operation histories on a real KeyedList against a plain-list reference model plus the key function, over 10 "
              "item universes (self-keyed str/int, tuples with an explicit key function, keyed spec items; untyped and "
              "KeyedList[T, K]); all MutableSequence operations of the property text and the dict-like ones, indices over "
              "[-len-1, len+1], wrong item/key types, duplicate keys; where the universe has a key function every operation is "
              "re-executed with an injected exception at each key-function invocation. After every execution all public reads "
              "(iteration, len, keys and items IN LIST ORDER, l[k], get, index_for_key, l[i]) must agree with the model, and with the previous "
              "model state when the operation raised; slices and concatenations are read as KeyedLists in their own right, through up to 1100 derived generations. The space of the property (exhaustive up to 4 items) is sampled, with the "
              "reached (universe, op, length, index class, outcome) cells reported."),
        note="Trusted: the reference list model in specsim/props/c13.py; membership is checked as item-or-key (pinned by the repo's tests).",
        technique="deterministic simulation: seeded operation histories vs executable reference model, key-function fault injection",
    ),    "C20": dict(
        level="fault_enumeration", design="DESIGN.md 3/C20",
        text=("Sequential part: seeded histories of copying operations (construction with mutable defaults, copy-on-write "
              "helpers, deepcopy of module-bearing values nested to depth 3, reset/del); probed operations are re-executed with an "
              "injected exception at every callback invocation index and with an abort at library line events; after every "
              "execution (a quiescent point) copyreg.dispatch_table must equal its pre-run snapshot, immediately and after one "
              "more copy. Threaded part: 2-3 baton-scheduled real threads deep-copy module-bearing values under seeded schedules "
              "(bounded pre-emptions at lines of the copy-protection code, PCT, random); every copy succeeds, modules are kept by "
              "identity, results equal the sequential run, table restored, no deadlock."),
        note=("Trusted: sys.settrace line granularity for aborts and pre-emptions; cooperative SimRLock in place of threading.RLock; "
              "schedules are sampled, not enumerated."),
        technique="deterministic simulation: line-abort and callback-fault enumeration over copying histories + seeded thread scheduler, dispatch-table invariant at quiescent points",
    ),
    "C19": dict(
        level="exploration", design="DESIGN.md 3/C19",
        text=("Seeded schedule search: a generated lazily-bootstrapped spec class (optional spec / plain subclass, "
              "Attr/field declarations, factories, preparers, properties) is used for the first time by 2-3 real threads that "
              "run one at a time under a baton; pre-emption points are library line events (thorough: also opcode events in "
              "the bootstrap functions); shapes: <=3 bounded pre-emptions biased to bootstrap code, PCT-like priorities, "
              "random switching. Oracle: no thread raises, every thread's instance / repr / helper result equals the eager "
              "sequential reference, canonical class description (metadata, attr specs, method names + signatures, defaults) "
              "equals the eager one, no deadlock, progress within a step cap. Sampling of the schedule space, not enumeration."),
        note=("Trusted: sys.settrace line granularity (a race needing a switch inside one C-level call cannot be produced; under "
              "the GIL those are atomic); the cooperative SimRLock replacing threading.RLock as seen by the library; CPython 3.12."),
        technique="deterministic simulation: baton-passing real threads, seeded scheduler over sys.settrace pre-emption points, simulated RLock, eager sequential reference model",
    ),    "C04": dict(
        level="fault_enumeration", design="DESIGN.md 3/C04",
        text=("Every operation of a seeded history (constructor, assignment, deletion, all helpers incl. _inplace=True, "
              "multi-keyword update/transform, element helpers) is re-executed with an injected exception at callback "
              "invocation index j=1,2,... until it completes; ill-formed inputs (wrong type per position, missing "
              "index/key/element, duplicate key, unknown keyword) come from the argument generator. Whenever an execution "
              "raises, the identity snapshot of all live instances, argument objects and class-level defaults must be unchanged."),
        note=("Trusted: the harness snapshot walker; callbacks from the pure-function pool. Asynchronous aborts are deliberately "
              "not injected (the property quantifies over callback exceptions and ill-formed inputs)."),
        technique="deterministic simulation: seeded operation histories + exhaustive callback-fault index enumeration per operation, identity-snapshot oracle",
    ),
    "C01": dict(
        level="fault_enumeration", design="DESIGN.md 3/C01",
        text=("Seeded histories over generated spec classes; each probed copy-on-write helper call is re-executed "
              "fault-free, with an injected exception at every user-callback invocation index, and with an asynchronous "
              "abort at library line events (quick: <=24 stratified lines per probe, thorough: every line); after every "
              "execution the identity snapshot of all live instances and of the argument objects must be unchanged. "
              "Fault enumeration per probe, sampling over class definitions / histories / arguments."),
        note=("Trusted: CPython 3.12 sys.settrace line events as abort points; the harness snapshot walker; user callbacks "
              "from the pure-function pool. Not covered: aborts between two bytecodes of one line; classes outside the grammar."),
        technique="deterministic simulation: seeded operation histories + callback-fault and line-abort enumeration, identity-snapshot oracle",
    ),
}

NOT_APPLICABLE = {
    "C09": "A single constructor call is a pure function of (class hierarchy, keyword set); the quantifier ranges over inputs, configurations and programs only - no history, schedule, fault or interleaving for a simulator to control.",
    "C15": "check_type(value, annotation) is a stateless pure function; deciding it is input enumeration against a reference checker, not simulation.",
    "C16": "A statement about one class body before/after decoration (programs x configurations); nothing executes concurrently or can fail part-way in a way the property speaks about.",
    "C17": "Per-program comparison of inspect.signature with acceptance/rejection of keywords; stateless, no fault or schedule dimension.",
}
PENDING_REASON = "not claimed yet: the simulation check for this property is still under construction (see DESIGN.md section 3); no evidence is offered."

ALL = [f"C{i:02d}" for i in range(1, 21)]


def main():
    checks = []
    for pid, c in CLAIMED.items():
        checks.append({
            "property_id": pid,
            "quick_cmd": f"bin/check {pid} --tier quick",
            "thorough_cmd": f"bin/check {pid} --tier thorough",
            "evidence_file": f"evidence/{pid}.json",
            "replay_cmd_template": f"bin/check {pid} --replay {{path}}",
            "engine": "specsim",
            "level_claimed": {"category": c["level"], "text": c["text"], "design_ref": c["design"]},
            "level_note": c["note"],
            "technique": c["technique"],
        })
    na = [{"property_id": p, "reason": r} for p, r in NOT_APPLICABLE.items()]
    for p in ALL:
        if p not in CLAIMED and p not in NOT_APPLICABLE:
            na.append({"property_id": p, "reason": PENDING_REASON})
    na.sort(key=lambda x: x["property_id"])
    m = {
        "version": 1,
        "setup_cmd": "bin/setup",
        "hooks": {
            "guard": "SPEC_CLASSES_VERIF",
            "enable": "no source hooks: all seams are reached by monkeypatching / sys.settrace from /verif (guard name reserved only)",
            "baseline_off_cmd": "cd /repo && /venv/bin/python -m pytest -ra -q -p no:cacheprovider --timeout=900 --continue-on-collection-errors",
            "source_commits": [],
            "add_only": True,
        },
        "engines": [{
            "name": "specsim",
            "path": "specsim/",
            "serves_properties": sorted(CLAIMED),
            "kind_free_text": "deterministic simulator: seeded class grammar + operation histories, callback faults, sys.settrace line aborts, baton-passing thread scheduler, identity snapshots, reference models, ddmin minimiser, replay files",
        }],
        "checks": checks,
        "not_applicable": na,
        "notes": "Every check: bin/check <id> [--tier quick|thorough] [--replay file]; honours VERIF_SEED, VERIF_TIER, VERIF_BUDGET_S. Exit 0 held / 1 VIOLATION / 2 harness failure. Known findings: known_findings.json.",
    }
    with open(os.path.join(HERE, "MANIFEST.json"), "w") as f:
        json.dump(m, f, indent=1)
    print("wrote MANIFEST.json with", len(checks), "checks,", len(na), "not_applicable")


if __name__ == "__main__":
    main()
