"""
Prepare a round of independent seeding: one scratch worktree of /repo per claimed property under
<root>/<Cxx> (outside /repo and /verif) plus a prompt file <root>/prompt_<Cxx>.txt that contains ONLY the
property text (statement + quantifier) and a focus line.  The sub-agents are told not to look at /verif or /repo.

usage: tools/make_seed_prompts.py <root> <focus.json>      (focus.json: {"C01": "focus text", ...})
Remove the worktrees afterwards: git -C /repo worktree remove --force <root>/<Cxx>; git -C /repo worktree prune
"""
import json
import os
import shutil
import subprocess
import sys

TEMPLATE = """You are helping to test a verification framework by seeding realistic defects into a Python library.

The library is `spec-classes` (pure Python; a dataclass-like decorator `@spec_class` that generates type-checked, copy-on-write `with_/update_/transform_/reset_/without_` helper methods, plus `KeyedList`/`KeyedSet` containers, `spec_property`/`classproperty` descriptors and `Alias`). You have your OWN scratch git worktree of the repository at:

    {wt}

Work ONLY inside that directory. Do not read, write or list anything under /verif or /repo (another team's material lives there and your work must be independent of it). Do not commit anything.

Environment notes:
- Interpreter: /venv/bin/python (Python 3.12). The package is importable from your worktree if you run commands from inside it with PYTHONPATH set, e.g.
      cd {wt} && PYTHONPATH={wt} /venv/bin/python -m pytest -q -p no:cacheprovider tests
      cd {wt} && PYTHONPATH={wt} /venv/bin/python _seed/demo1.py
  Always set PYTHONPATH={wt}, otherwise a different copy of the package is imported. Verify with `python -c "import spec_classes; print(spec_classes.__file__)"`.
- There is no network. The existing test suite has 152 tests and currently passes.
- Every shell command prints a harmless "WARNING conda..." line; ignore it.

The property the framework is supposed to guarantee (this is ALL the specification you get):

-----
{pid} - {title}

STATEMENT: {statement}

QUANTIFIER: {quantifier}

-----

FOCUS for this round ({rounds} previous rounds already produced the more obvious defects; aim at these areas, and prefer a defect that needs TWO or THREE ingredients at once to show): {focus}.

Note: spec_classes/_version.py has already been created in your worktree (it is git-ignored); the package imports.

YOUR TASK: produce up to TWO different, independent source changes ("mutants") to the library code under {wt}/spec_classes/ such that, for each change taken alone:
  1. the library still imports and the FULL existing test suite still passes (all 152 tests) with the change applied;
  2. the change makes the property above FALSE in at least one concrete situation;
  3. the defect is realistic (the kind of slip a maintainer could make in a refactoring or "optimisation": a skipped copy on one branch, a check moved after a write, an off-by-one in one addressing mode, a cache not invalidated on one entry point, a lock taken too late, a wrong condition for one attribute kind, two sites that each look fine alone ...) and SUBTLE: it must need something specific to manifest -- a particular multi-step sequence of operations, an unusual but legal input (falsy element, negative index, empty container, nested keyword, subclass, mutable default, specific option combination), a failure/exception at a particular point, or a particular thread interleaving -- NOT something the first ordinary use of the library would expose at once. Prefer changes in the code that implements the mechanism behind the property, and make the two changes use different mechanisms / files if you can.
  4. you provide a small demonstration program that FAILS (exits non-zero, e.g. via an assertion) with the change applied and PASSES (exit 0) on the unmodified worktree.

Deliverables (write them into {wt}/_seed/, which already exists):
  - mutant1.diff  : output of `git diff -- spec_classes` for change 1 alone (apply-able with `git apply` on the clean worktree)
  - demo1.py      : the demonstration for change 1 (standalone script, uses only the public API where possible; do not assert on the path the package was imported from)
  - notes1.md     : 5-10 lines: what the change is, why tests still pass, and exactly what is needed for it to manifest (sequence / input / fault point / interleaving)
  - mutant2.diff, demo2.py, notes2.md : the same for change 2 (omit if you could only find one good change)

Procedure you must follow for each change: edit the source; run the full test suite (must be 152 passed); run your demo (must fail); save the diff; `git -C {wt} checkout -- spec_classes` to restore; run the demo again (must pass); only then continue. Leave the worktree source CLEAN (no modifications under spec_classes/) when you finish. In your final answer, list the files you wrote and one line per mutant describing it.
"""


def main():
    root, focus_file = sys.argv[1], sys.argv[2]
    rounds = sys.argv[3] if len(sys.argv) > 3 else "several"
    focus = json.load(open(focus_file))
    props = {}
    here = os.path.dirname(os.path.dirname(os.path.abspath(__file__)))
    for line in open(os.path.join(here, "properties.jsonl")):
        d = json.loads(line)
        props[d["id"]] = d
    os.makedirs(root, exist_ok=True)
    for pid, f in focus.items():
        d = props[pid]
        wt = os.path.join(root, pid)
        subprocess.run(["git", "-C", "/repo", "worktree", "add", "--detach", wt, "HEAD", "-q"], check=True)
        shutil.copy("/repo/spec_classes/_version.py", os.path.join(wt, "spec_classes", "_version.py"))
        os.makedirs(os.path.join(wt, "_seed"), exist_ok=True)
        txt = TEMPLATE.format(wt=wt, pid=pid, title=d["title"], statement=d["statement"], quantifier=d["quantifier"]["text"],
                              focus=f, rounds=rounds)
        open(os.path.join(root, f"prompt_{pid}.txt"), "w").write(txt)
    print("prepared", len(focus), "worktrees under", root)


if __name__ == "__main__":
    main()
