"""
Confirm a seeded change and run checks against it, in a scratch git worktree of /repo
(outside /repo and /verif, removed afterwards).  /repo itself is never modified, so
background runs that read /repo are not disturbed; the checks are pointed at the scratch
tree with SPECSIM_REPO (registered commands never use that override).

usage: tools/try_seed.py <patch.diff> <demo.py> <Cxx>[,Cyy...] [--runs N] [--tier quick] [--keep]
prints a JSON summary; exit 0 if confirmed (tests pass, demo fails with / passes without) AND
every listed check reports a violation, 1 if confirmed but some check misses it, 2 if not confirmed.
"""
import json
import os
import shutil
import subprocess
import sys
import tempfile

HERE = os.path.dirname(os.path.dirname(os.path.abspath(__file__)))
PY = "/venv/bin/python"


def sh(cmd, cwd=None, env=None, timeout=1800):
    p = subprocess.run(cmd, cwd=cwd, env=env, capture_output=True, text=True, timeout=timeout)
    return p.returncode, (p.stdout + p.stderr)


def main():
    patch, demo, props = sys.argv[1], sys.argv[2], sys.argv[3].split(",")
    runs = None
    tier = "quick"
    if "--runs" in sys.argv:
        runs = sys.argv[sys.argv.index("--runs") + 1]
    if "--tier" in sys.argv:
        tier = sys.argv[sys.argv.index("--tier") + 1]
    base = tempfile.mkdtemp(prefix="seedtry_", dir="/tmp")
    wt = os.path.join(base, "wt")
    out = {"patch": patch, "demo": demo}
    try:
        rc, o = sh(["git", "-C", "/repo", "worktree", "add", "--detach", wt, "HEAD"])
        if rc:
            print(o)
            return 2
        # the generated, git-ignored version module is not part of a fresh worktree
        if os.path.exists("/repo/spec_classes/_version.py"):
            shutil.copy("/repo/spec_classes/_version.py", os.path.join(wt, "spec_classes", "_version.py"))
        env = dict(os.environ, PYTHONPATH=wt, PYTHONDONTWRITEBYTECODE="1")
        # demo on the clean tree must pass
        rc, o = sh([PY, os.path.abspath(demo)], cwd=wt, env=env, timeout=300)
        out["demo_clean_rc"] = rc
        rc, o = sh(["git", "-C", wt, "apply", os.path.abspath(patch)])
        out["apply_rc"] = rc
        if rc:
            out["apply_out"] = o[-500:]
            print(json.dumps(out, indent=1))
            return 2
        rc, o = sh([PY, "-m", "pytest", "-q", "-p", "no:cacheprovider", "tests"], cwd=wt, env=env, timeout=900)
        out["tests_rc"] = rc
        out["tests_tail"] = o.strip().splitlines()[-1] if o.strip() else ""
        rc, o = sh([PY, os.path.abspath(demo)], cwd=wt, env=env, timeout=300)
        out["demo_mutant_rc"] = rc
        out["demo_mutant_tail"] = o.strip().splitlines()[-1][:200] if o.strip() else ""
        confirmed = out["demo_clean_rc"] == 0 and out["tests_rc"] == 0 and out["demo_mutant_rc"] != 0
        out["confirmed"] = confirmed
        out["checks"] = {}
        all_caught = True
        for prop in props:
            cmd = [os.path.join(HERE, "bin", "check"), prop, "--tier", tier, "--no-evidence"]
            if runs:
                cmd += ["--runs", runs]
            env2 = dict(os.environ, SPECSIM_REPO=wt)
            rc, o = sh(cmd, cwd=HERE, env=env2, timeout=3000)
            lines = [l for l in o.splitlines() if "conda" not in l]
            sigs = [l[len("violation: "):][:300] for l in lines if l.startswith("violation: ")]
            summary = [l for l in lines if l.startswith(prop + " ")]
            out["checks"][prop] = {"rc": rc, "sigs": sigs[:4], "summary": summary[-1][:200] if summary else "",
                                   "harness_errors": [l[:200] for l in lines if l.startswith("HARNESS")][:2]}
            if rc != 1:
                all_caught = False
        # the replays written by those runs point at a scratch tree: remove them
        print(json.dumps(out, indent=1))
        return 0 if (confirmed and all_caught) else (1 if confirmed else 2)
    finally:
        sh(["git", "-C", "/repo", "worktree", "remove", "--force", wt])
        shutil.rmtree(base, ignore_errors=True)
        sh(["git", "-C", "/repo", "worktree", "prune"])


if __name__ == "__main__":
    sys.exit(main())
