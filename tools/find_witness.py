"""
Search run seeds for a violation whose signature contains the given key=value pairs,
minimise it and write it as a replay/witness file.

usage: PYTHONHASHSEED=0 python tools/find_witness.py C01 out.json key=value [key=value ...] [--max N] [--tier quick]
Only seeds whose hash seed equals this process's PYTHONHASHSEED are tried.
"""
import importlib
import json
import os
import re
import sys
import warnings

HERE = os.path.dirname(os.path.dirname(os.path.abspath(__file__)))
sys.path.insert(0, HERE)
sys.path.insert(0, os.environ.get("SPECSIM_REPO", "/repo"))
warnings.simplefilter("ignore")
from specsim.core import canon, hashseed_for, run_seed  # noqa: E402


def main():
    prop, out = sys.argv[1], sys.argv[2]
    want = dict(a.split("=", 1) for a in sys.argv[3:] if "=" in a and not a.startswith("--"))
    mx = 5000
    tier = "quick"
    if "--max" in sys.argv:
        mx = int(sys.argv[sys.argv.index("--max") + 1])
    if "--tier" in sys.argv:
        tier = sys.argv[sys.argv.index("--tier") + 1]
    hs = int(os.environ.get("PYTHONHASHSEED", "0"))
    chk = importlib.import_module(f"specsim.props.{prop.lower()}").CHECK()
    chk.known.entries = [e for e in chk.known.entries if os.environ.get("KEEP_KNOWN")]
    chk.warmup()
    for r in range(mx):
        s = run_seed(prop, 424242, r)
        if hashseed_for(s) != hs:
            continue
        ctx = chk.run(seed=s, tier=tier)
        for v, _ in ctx.violations:
            if all(re.fullmatch(p, v.sig.get(k, "")) for k, p in want.items()):
                case, tries = chk.minimise(ctx.case, v.sig_key(), 400)
                ctx2 = chk.run(seed=s, case=case, tier=tier)
                vv = [x for x, _ in ctx2.violations if x.sig_key() == v.sig_key()]
                if not vv:
                    continue
                with open(out, "w") as f:
                    json.dump({"property": prop, "expect_sig": vv[0].sig, "detail": vv[0].detail,
                               "case": ctx2.case}, f, indent=1, sort_keys=True, default=str)
                print("found at r", r, "seed", s, "ops", len(ctx2.case.get("ops", [])), "tries", tries)
                print(json.dumps(vv[0].sig))
                return 0
    print("not found")
    return 1


if __name__ == "__main__":
    sys.exit(main())
