"""
Sensitivity self-test: run every kept seeded change (seeded/<id>/) through tools/try_seed.py
against the checks listed in its meta.json, record the outcome in seeded/RESULTS.json and
regenerate seeded/INDEX.md.  Never touches /repo (scratch worktrees, SPECSIM_REPO).

usage: tools/run_seeded.py [id ...] [--jobs N]
exit 0 if every seeded change is confirmed and caught by every listed check.
"""
import json
import os
import subprocess
import sys
from concurrent.futures import ThreadPoolExecutor

HERE = os.path.dirname(os.path.dirname(os.path.abspath(__file__)))
SEEDED = os.path.join(HERE, "seeded")


def run_one(sid):
    d = os.path.join(SEEDED, sid)
    meta = json.load(open(os.path.join(d, "meta.json")))
    cmd = ["/venv/bin/python", os.path.join(HERE, "tools", "try_seed.py"), os.path.join(d, "patch.diff"),
           os.path.join(d, "demo.py"), ",".join(meta["checks"])]
    env = dict(os.environ, SPECSIM_WORKERS=os.environ.get("SPECSIM_WORKERS", "4"))
    p = subprocess.run(cmd, capture_output=True, text=True, env=env, timeout=7200)
    txt = "\n".join(l for l in p.stdout.splitlines() if "conda" not in l)
    try:
        res = json.loads(txt[txt.index("{"):])
    except Exception:
        res = {"error": (p.stdout + p.stderr)[-800:]}
    res["rc"] = p.returncode
    return sid, meta, res


def main():
    args = [a for a in sys.argv[1:] if not a.startswith("--")]
    jobs = 4
    if "--jobs" in sys.argv:
        jobs = int(sys.argv[sys.argv.index("--jobs") + 1])
        args = [a for a in args if a != str(jobs)]
    ids = args or sorted(x for x in os.listdir(SEEDED) if os.path.isdir(os.path.join(SEEDED, x)) and not x.startswith("_"))
    results_path = os.path.join(SEEDED, "RESULTS.json")
    results = json.load(open(results_path)) if os.path.exists(results_path) else {}
    ok = True
    with ThreadPoolExecutor(max_workers=jobs) as ex:
        for sid, meta, res in ex.map(run_one, ids):
            caught = {k: (v["rc"] == 1) for k, v in res.get("checks", {}).items()}
            results[sid] = {"confirmed": res.get("confirmed"), "tests": res.get("tests_tail"),
                            "caught_by": [k for k, c in caught.items() if c],
                            "missed_by": [k for k, c in caught.items() if not c],
                            "first_signatures": {k: v["sigs"][:1] for k, v in res.get("checks", {}).items()},
                            "error": res.get("error")}
            good = bool(res.get("confirmed")) and all(caught.values()) and caught
            ok = ok and good
            print(f"{sid}: confirmed={res.get('confirmed')} caught_by={results[sid]['caught_by']} missed_by={results[sid]['missed_by']}")
    json.dump(results, open(results_path, "w"), indent=1, sort_keys=True)
    # index
    lines = ["# Seeded changes", "",
             "Each directory holds `patch.diff` (against /repo HEAD), `demo.py` (fails with the patch, passes without),",
             "`notes.md` (the author's description) and `meta.json`. Outcomes below are from `tools/run_seeded.py`",
             "(quick tier, scratch worktrees; /repo is never modified).", "",
             "| id | property | what it breaks / needs to manifest | caught by | missed by |", "|---|---|---|---|---|"]
    for sid in sorted(results):
        mp = os.path.join(SEEDED, sid, "meta.json")
        if not os.path.exists(mp):
            continue
        meta = json.load(open(mp))
        first = " ".join(meta["needs_to_manifest"].split())[:260].replace("|", "/")
        r = results[sid]
        lines.append(f"| {sid} | {meta['property']} | {first} | {', '.join(r['caught_by'])} | {', '.join(r['missed_by'])} |")
    open(os.path.join(SEEDED, "INDEX.md"), "w").write("\n".join(lines) + "\n")
    return 0 if ok else 1


if __name__ == "__main__":
    sys.exit(main())
