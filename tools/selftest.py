"""
Determinism self-test: for each property, N run seeds are executed in two fresh worker
interpreters -- once in order, once in reverse order (so every run has a different process
history) -- and additionally replayed from their recorded case; all digests must agree.

usage: tools/selftest.py determinism [--props C01,C02,...] [--n 40] [--tier quick]
exit 0 = all digests agree, 2 = a divergence (harness defect: never reported as a violation).
"""
import json
import os
import subprocess
import sys
from concurrent.futures import ThreadPoolExecutor

HERE = os.path.dirname(os.path.dirname(os.path.abspath(__file__)))
sys.path.insert(0, HERE)
from specsim.core import HASHSEEDS, hashseed_for, run_seed  # noqa: E402

PY = "/venv/bin/python"
WORKER = os.path.join(HERE, "specsim", "worker.py")


def run_worker(prop, tier, hs, requests):
    env = dict(os.environ, PYTHONHASHSEED=str(hs), SPECSIM_SAMPLES="0", PYTHONDONTWRITEBYTECODE="1")
    p = subprocess.run([PY, "-u", WORKER, prop, tier], input="".join(json.dumps(r) + "\n" for r in requests),
                       capture_output=True, text=True, env=env, timeout=1800)
    out = []
    for line in p.stdout.splitlines():
        if line.startswith("@@ "):
            out.append(json.loads(line[3:]))
    if p.returncode != 0:
        raise RuntimeError(f"worker rc={p.returncode}: {p.stderr[-1500:]}")
    return out


def check_prop(prop, n, tier):
    seeds = [run_seed(prop, 777, r) for r in range(n)]
    bad = []
    total = 0
    for hs in HASHSEEDS:
        ss = [s for s in seeds if hashseed_for(s) == hs]
        if not ss:
            continue
        a = run_worker(prop, tier, hs, [{"seed": s, "verify_replay": False} for s in ss])
        b = run_worker(prop, tier, hs, [{"seed": s, "verify_replay": False} for s in reversed(ss)])
        da = {r["seed"]: r for r in a if "seed" in r}
        db = {r["seed"]: r for r in b if "seed" in r}
        for r in a + b:
            if "harness_error" in r:
                bad.append((prop, "harness_error", r["harness_error"][:200]))
        for s in ss:
            total += 1
            if s not in da or s not in db:
                bad.append((prop, s, "missing result"))
            elif da[s]["digest"] != db[s]["digest"]:
                bad.append((prop, s, f"{da[s]['digest']} vs {db[s]['digest']} (order / process history)"))
    return prop, total, bad


def main():
    args = sys.argv[1:]
    props = None
    n = 40
    tier = "quick"
    if "--props" in args:
        props = args[args.index("--props") + 1].split(",")
    if "--n" in args:
        n = int(args[args.index("--n") + 1])
    if "--tier" in args:
        tier = args[args.index("--tier") + 1]
    if props is None:
        m = json.load(open(os.path.join(HERE, "MANIFEST.json")))
        props = [c["property_id"] for c in m["checks"]]
    rc = 0
    with ThreadPoolExecutor(max_workers=8) as ex:
        for prop, total, bad in ex.map(lambda p: check_prop(p, n, tier), props):
            print(f"{prop}: {total} seeds x 2 process histories: {'OK' if not bad else 'DIVERGED'}")
            for b in bad[:5]:
                print("   ", b)
            if bad:
                rc = 2
    return rc


if __name__ == "__main__":
    sys.exit(main())
