"""
Run-level harness shared by all property engines.

A *check* (one per property) subclasses `Check` and implements

    generate_and_run(ctx)      drive one run; append to ctx.events / ctx.violations

`ctx.case` is the JSON-able record of every decision of the run (class spec,
operation list incl. fault plans / switch lists).  A run is either *generated*
(decisions drawn from the run PRNG and recorded) or *replayed* (decisions read
from a recorded case; the PRNG is not touched).  Both must produce the same
event-log digest.
"""

import gc
import json
import os
import time

from .core import KnownFindings, Source, Violation, canon, digest, hashseed_for


def reset_process_globals():
    """N5: process-global mutable state that must not carry over from run to run."""
    import copyreg
    import types
    import typing

    for f in getattr(typing, "_cleanups", []):
        f()  # typing's lru caches hold the per-run classes alive and grow without bound
    try:
        from spec_classes.utils.mutation import _modules_copyable

        copyreg.dispatch_table.pop(types.ModuleType, None)
        inst = _modules_copyable.__dict__.get("__instance__")
        if inst is None:
            # every run starts with the copy-protection singleton in place (a thread-mode run may have left the
            # process without one; building it costs the first copy of the next run five extra line events)
            inst = _modules_copyable()
        inst.refcount = 0
        inst.patched_table = False
    except Exception:  # pragma: no cover
        pass


class RunCtx:
    def __init__(self, check, seed, case=None, tier="quick"):
        self.check = check
        self.seed = seed
        self.tier = tier
        self.replay = case is not None
        self.src = Source(recorded=True) if self.replay else Source(seed)
        self.case_in = case
        self.case = {"property": check.PROP, "seed": seed, "hashseed": hashseed_for(seed) if seed is not None else None}
        if case:
            self.case["hashseed"] = case.get("hashseed")
        self.events = []
        self.violations = []  # [(Violation, step index)]
        self.known_hits = {}
        self.cells = set()
        self.stats = {}
        self.evaluations = 0

    def bump(self, key, n=1):
        self.stats[key] = self.stats.get(key, 0) + n

    def cell(self, *parts):
        self.cells.add("|".join(str(p) for p in parts))

    def log(self, *ev):
        self.events.append(list(ev))

    def violate(self, sig, detail=None, step=None):
        v = Violation(self.check.PROP, sig, detail)
        kf = self.check.known.match(self.check.PROP, v.sig)
        if kf is not None:
            self.known_hits[kf["id"]] = self.known_hits.get(kf["id"], 0) + 1
            self.log("known", kf["id"])
            return None
        self.violations.append((v, step))
        self.log("violation", v.sig)
        return v


class Check:
    PROP = None
    LEVEL = "exploration"
    RUNS = {"quick": 100, "thorough": 2000}
    MINIMISE_BUDGET = {"quick": 150, "thorough": 600}
    RULE = ""
    COMPONENTS_REAL = ["spec_classes (all modules, from /repo working tree)", "copy", "copyreg", "typing",
                       "dataclasses", "inflect", "cached_property", "lazy_object_proxy", "CPython 3.12"]
    COMPONENTS_STUBBED = ["user callbacks (harness FaultPoints)", "PYTHONHASHSEED (chosen per run)",
                          "GC timing (disabled during a run)"]

    def __init__(self):
        self.known = KnownFindings()

    # -- to implement -------------------------------------------------------
    def drive(self, ctx):
        raise NotImplementedError

    def shrink_candidates(self, case):
        """Yield smaller candidate cases (generic: ddmin over case['ops'])."""
        return ddmin_candidates(case)

    # -- warm-up ---------------------------------------------------------------
    WARMUP_SEEDS = (11, 12, 13)

    def warmup(self, tier="quick"):
        """Fill process-global caches (typing, inflect, lazy imports) so that line counts of
        later runs do not depend on process history.  Results are discarded."""
        self.warming = True  # (thorough tier: checks that can trace opcodes do so in every warm-up run)
        try:
            for s in self.WARMUP_SEEDS:
                try:
                    self.run(seed=s, tier=tier)  # same tier as the batch
                except Exception:
                    pass
        finally:
            self.warming = False

    # -- run one --------------------------------------------------------------
    def run(self, seed=None, case=None, tier="quick"):
        ctx = RunCtx(self, seed, case, tier)
        gc_was = gc.isenabled()
        gc.disable()
        try:
            self.drive(ctx)
        finally:
            reset_process_globals()
            if gc_was:
                gc.enable()
            gc.collect()
        return ctx

    def result_json(self, ctx, with_case=False):
        res = {
            "seed": ctx.seed,
            "digest": digest(ctx.events),
            "n_events": len(ctx.events),
            "evaluations": ctx.evaluations,
            "cells": sorted(ctx.cells),
            "stats": ctx.stats,
            "known": ctx.known_hits,
            "violations": [v.to_json() for v, _ in ctx.violations],
        }
        if with_case:
            res["case"] = ctx.case
        return res

    # -- minimisation -----------------------------------------------------------
    def minimise(self, case, sig_key, budget):
        """Greedy reduction keeping the same violation signature.  Returns (case, tries)."""
        tries = 0
        best = case
        improved = True
        while improved and tries < budget:
            improved = False
            for cand in self.shrink_candidates(best):
                if tries >= budget:
                    break
                tries += 1
                try:
                    ctx = self.run(seed=cand.get("seed"), case=cand, tier="quick")
                except Exception:
                    continue
                if any(v.sig_key() == sig_key for v, _ in ctx.violations):
                    # adopt the *re-recorded* case (ids etc. stay the same, skipped ops are gone)
                    best = ctx.case
                    improved = True
                    break
        # second phase: simplify single operations (drop probes / fault plans / keyword arguments / tails)
        improved = True
        while improved and tries < budget:
            improved = False
            for cand in self.simplify_candidates(best):
                if tries >= budget:
                    break
                tries += 1
                try:
                    ctx = self.run(seed=cand.get("seed"), case=cand, tier="quick")
                except Exception:
                    continue
                if any(v.sig_key() == sig_key for v, _ in ctx.violations):
                    best = ctx.case
                    improved = True
                    break
        return best, tries

    def simplify_candidates(self, case):
        return simplify_value_candidates(case)


def ddmin_candidates(case):
    ops = case.get("ops", [])
    n = len(ops)
    if n <= 1:
        return
    # drop everything after the last op first is not known; standard: chunks of halves, quarters, ..., singles
    chunk = max(1, n // 2)
    seen = set()
    while chunk >= 1:
        i = 0
        while i < n:
            cand_ops = ops[:i] + ops[i + chunk:]
            key = canon([o.get("id") for o in cand_ops])
            if cand_ops and key not in seen:
                seen.add(key)
                c = dict(case)
                c["ops"] = cand_ops
                yield c
            i += chunk
        if chunk == 1:
            break
        chunk = max(1, chunk // 2)


def simplify_value_candidates(case):
    """Second-phase shrinking: drop keyword arguments / fault plans from single ops."""
    ops = case.get("ops", [])
    for idx, op in enumerate(ops):
        if not isinstance(op, dict):
            continue
        for field in ("probe", "plan", "tails", "fault"):
            if op.get(field):
                o2 = {k: v for k, v in op.items() if k != field}
                c = dict(case)
                c["ops"] = ops[:idx] + [o2] + ops[idx + 1:]
                yield c
        kw = op.get("kw") or {}
        for k in list(kw):
            o2 = dict(op)
            o2["kw"] = {a: b for a, b in kw.items() if a != k}
            c = dict(case)
            c["ops"] = ops[:idx] + [o2] + ops[idx + 1:]
            yield c


def write_replay(prop, case, violation, verif_dir):
    d = os.path.join(verif_dir, "replays", prop)
    os.makedirs(d, exist_ok=True)
    name = f"{digest(violation['sig'])}-{case.get('seed')}.json"
    path = os.path.join(d, name)
    with open(path, "w") as f:
        json.dump({"property": prop, "expect_sig": violation["sig"], "detail": violation.get("detail"),
                   "case": case}, f, indent=1, sort_keys=True, default=str)
    return path
