"""
Class grammar: JSON-able class specs, their materialisation into real spec
classes, and JSON-able value references ("valrefs") that are built into *fresh*
Python objects every time they are used.

valref encoding: JSON scalars stand for themselves; everything else is a tagged
list [tag, payload]:
  ["list",[..]] ["dict",[[k,v]..]] ["set",[..]] ["tuple",[..]] ["box",v]
  ["leaf",{kw}] ["kitem",{kw}] ["klist",[items]] ["kset",[items]]
  ["fn",name] ["sent",name] ["mod",name] ["float", "repr"]
"""

import dataclasses
import math
import os
import sys
import typing
from typing import Dict, List, Optional, Set, Union

from .core import HarnessError
from .faults import make_callback
from .snap import Bomb, Box, Catcher

try:
    from typing import Literal
except ImportError:  # pragma: no cover
    from typing_extensions import Literal


def _lib():
    import spec_classes
    from spec_classes.types import KeyedList, KeyedSet, bounded, validated

    return spec_classes, KeyedList, KeyedSet, bounded, validated


# ----------------------------------------------------------------------------
# Attribute kinds

SCALAR_KINDS = ["int", "str", "float", "optint", "union", "lit", "bounded", "validated"]
# only used by profiles that ask for them: module-bearing payloads; a list whose items are Optional[spec class]
# (the element type is then not "a spec class" for the library's purposes)
EXTRA_KINDS = ["any", "list_optleaf", "list_optint", "dict_optint"]
PLAIN_COLL_KINDS = ["list_int", "dict_int", "set_int"]
SPEC_KINDS = ["leaf"]
SPEC_COLL_KINDS = ["list_leaf", "dict_leaf", "list_kitem", "dict_kitem", "klist", "kset"]
ALL_KINDS = SCALAR_KINDS + PLAIN_COLL_KINDS + SPEC_KINDS + SPEC_COLL_KINDS
COLL_KINDS = PLAIN_COLL_KINDS + SPEC_COLL_KINDS + ["list_optleaf", "list_optint", "dict_optint"]

KIND_NAMES = {
    "int": ["count", "size"],
    "str": ["label", "title"],
    "float": ["ratio"],
    "optint": ["maybe"],
    "union": ["either"],
    "lit": ["mode"],
    "bounded": ["level"],
    "validated": ["even"],
    "litint": ["grade"],   # Literal[1, 2]        (only in profiles that list it: C03)
    "tup2": ["pair"],      # Tuple[int, str]
    "tupvar": ["series"],  # Tuple[int, ...]
    "list_int": ["nums", "values"],
    "dict_int": ["scores", "weights"],
    "set_int": ["tags", "marks"],
    "leaf": ["leaf", "twig"],
    "list_leaf": ["parts", "pieces"],
    "dict_leaf": ["nodes"],
    "list_kitem": ["kitems"],
    "dict_kitem": ["kmaps"],
    "klist": ["entries"],
    "kset": ["members"],
    "any": ["payload", "extra"],
    "list_optleaf": ["slots"],
    "list_optint": ["opts"],
    "dict_optint": ["levels"],  # Dict[str, Optional[int]]: falsy values (0, None) the item type cannot rebuild from nothing
}

FAMILY = {
    "list_int": "seq", "list_leaf": "seq", "list_kitem": "seq", "klist": "seq", "list_optleaf": "seq", "list_optint": "seq",
    "dict_int": "map", "dict_leaf": "map", "dict_kitem": "map", "dict_optint": "map",
    "set_int": "set", "kset": "set",
}
ITEM_KIND = {
    "list_int": "int", "dict_int": "int", "set_int": "int",
    "list_leaf": "leaf", "dict_leaf": "leaf", "list_optleaf": "leaf", "list_optint": "optint", "dict_optint": "optint",
    "list_kitem": "kitem", "dict_kitem": "kitem", "klist": "kitem", "kset": "kitem",
}


def is_even_int(x):
    return isinstance(x, int) and not isinstance(x, bool) and x % 2 == 0


# ----------------------------------------------------------------------------
# Pure function pool (transforms / preparers).  All return new objects.


def _missing():
    from spec_classes import MISSING

    return MISSING


FUNCS = {
    "ident": lambda x: x,
    "inc": lambda x: x + 1,
    "dec": lambda x: x - 1,
    "neg": lambda x: -x,
    "dbl": lambda x: x * 2,
    "zero": lambda x: 0,
    "two": lambda x: 2,
    "bang": lambda x: x + "!",
    "a": lambda x: "a",
    "b": lambda x: "b",
    "half": lambda x: x / 2,
    "none": lambda x: None,
    "tostr": lambda x: str(x),
    "tolist": lambda x: [x],
    "newlist": lambda x: [0],  # a brand-new object sharing nothing with its input
    "missing": lambda x: _missing(),
    "rev": lambda x: list(reversed(x)),
    "app9": lambda x: list(x) + [9],
    "app_s": lambda x: list(x) + ["s"],
    "withz": lambda x: {**x, "z": 26},
    "with_badkey": lambda x: {**x, 5: 5},
    "with_badval": lambda x: {**x, "z": "s"},
    "add9": lambda x: set(x) | {9},
    "add_s": lambda x: set(x) | {"s"},
    "empty_list": lambda x: [],
    "empty_dict": lambda x: {},
    "empty_set": lambda x: set(),
    "leaf_bump": lambda l: l.with_p(getattr(l, "p", 0) + 1),
    "leaf_q": lambda l: l.with_q("t"),
    "kitem_bump": lambda k: k.with_v(getattr(k, "v", 0) + 1),
    "kitem_rekey": lambda k: k.with_k(k.k + "x"),
    "kitem_rekey_a": lambda k: k.with_k("a"),
    "kitem_key": lambda k: k.k,  # hands back the item's key (a value of the KEY type where an item is expected)
}

GOOD_FNS = {
    "any": ["ident", "tolist", "newlist"],
    "int": ["inc", "neg", "zero", "ident", "dbl"],
    "str": ["bang", "a", "ident"],
    "float": ["half", "inc", "ident"],
    "optint": ["none", "zero", "ident"],
    "union": ["tostr", "zero", "ident"],
    "lit": ["a", "b", "ident"],
    "bounded": ["inc", "zero", "ident", "dbl"],
    "validated": ["dbl", "zero", "ident", "two"],
    "litint": ["two", "ident"],
    "tup2": ["ident", "tup_copy"],
    "tupvar": ["ident", "tup_copy", "tup_more"],
    "list_int": ["rev", "app9", "empty_list", "ident"],
    "list_optint": ["rev", "app9", "empty_list", "ident"],
    "dict_int": ["withz", "empty_dict", "ident"],
    "dict_optint": ["withz", "empty_dict", "ident"],
    "set_int": ["add9", "empty_set", "ident"],
    "leaf": ["leaf_bump", "leaf_q", "ident"],
    "kitem": ["kitem_bump", "ident"],
}
BAD_FNS = {
    "any": ["ident"],
    "int": ["tostr", "none", "tolist"],
    "str": ["zero", "none"],
    "float": ["tostr", "none"],
    "optint": ["tostr", "tolist"],
    "union": ["none", "tolist"],
    "lit": ["zero", "bang"],
    "bounded": ["neg_one", "tostr"],
    "validated": ["inc_odd", "tostr"],
    "litint": ["zero", "tostr", "to_true", "to_float"],
    "tup2": ["tolist", "tup_rev", "zero", "tup_more"],
    "tupvar": ["tolist", "tup_s", "none"],
    "list_int": ["app_s", "zero"],
    "list_optint": ["app_s", "zero"],
    "dict_int": ["with_badval", "with_badkey", "zero"],
    "dict_optint": ["with_badval", "with_badkey", "zero"],
    "set_int": ["add_s", "zero"],
    "leaf": ["zero", "none"],
    "kitem": ["zero", "none", "kitem_key"],
}
FUNCS["to_true"] = lambda x: True      # equal to the choice 1, but a bool
FUNCS["to_float"] = lambda x: float(x)  # equal to the choice it was, but a float
FUNCS["tup_copy"] = lambda t: tuple(t)
FUNCS["tup_more"] = lambda t: tuple(t) + (7,)
FUNCS["tup_rev"] = lambda t: tuple(reversed(t))
FUNCS["tup_s"] = lambda t: tuple(t) + ("s",)
FUNCS["neg_one"] = lambda x: -1
FUNCS["inc_odd"] = lambda x: (x // 2) * 2 + 1

# preparers (attr-level): (self, v) -> v
PREPARERS = {
    "ident": lambda self, v: v,
    "abs": lambda self, v: abs(v) if isinstance(v, int) and not isinstance(v, bool) else v,
    "strip": lambda self, v: v.strip() if isinstance(v, str) else v,
    "tup2list": lambda self, v: list(v) if isinstance(v, tuple) else v,
    "str2int": lambda self, v: int(v) if isinstance(v, str) and v.lstrip("-").isdigit() else v,
    # the "lookup table" use of a preparer: a name is resolved to an object the instance already holds elsewhere
    # (the other nested attribute: leaf <-> twig); anything else passes through
    "lookup_leaf": lambda self, v: (self.__dict__.get("twig", v) if v == "@peer" else v),
    "lookup_twig": lambda self, v: (self.__dict__.get("leaf", v) if v == "@peer" else v),
}
ITEM_PREPARERS = {
    "ident": lambda self, v: v,
    "dbl": lambda self, v: v * 2 if isinstance(v, int) and not isinstance(v, bool) else v,
    "str2int": lambda self, v: int(v) if isinstance(v, str) and v.lstrip("-").isdigit() else v,
    # keyed elements: a numeric id is turned into the element's key (so the preparer decides whether what came in is a key)
    "id2key": lambda self, v: f"k{v}" if isinstance(v, int) and not isinstance(v, bool) else v,
}
FACTORIES = {}  # filled by default valrefs: factory returns build(valref)

# spec_property getters (self) -> value ; robust to missing attrs
def _g(self, name, dflt):
    try:
        v = self.__dict__.get(name, dflt)
    except Exception:  # pragma: no cover
        v = dflt
    return v


# ----------------------------------------------------------------------------
# Generation of class specs


DEFAULT_PROFILE = {
    "kinds": ALL_KINDS,
    "n_attrs": (3, 7),
    "allow_frozen": False,
    "allow_class_dnc": False,
    "allow_parent_class_dnc": False,
    "allow_post_copy_assign": False,
    "allow_attr_dnc": True,
    "allow_key": True,
    "allow_sub": True,
    "allow_props": True,
    "allow_preparers": True,
    "allow_item_preparers": True,
    "allow_invalidated_by": True,
    "allow_init_false": True,
    "allow_hooks": True,
    "p_lazy": 0.6,
    "force_kinds": [],
    "allow_new_shapes": False,
    "allow_mutable_props": False,
    "allow_bad_defaults": False,
    "p_sub": 0.35,
    "allow_foreign_defaults": False,
    "allow_leaf_inv": False,
    "allow_post_init_keep": False,
    "allow_lookup_preparer": False,
    "allow_two_levels": True,
}


def gen_default(src, kind, allow_none=True):
    """-> ["none"] | [style, valref]"""
    styles = ["none", "lit", "attr", "factory", "field", "field_factory"]
    w = [3 if allow_none else 0, 3, 2, 2, 1, 1]
    style = src.weighted(list(zip(styles, w)))
    if style == "none":
        return ["none"]
    return [style, good_value(src, kind, small=True)]


def gen_class_spec(src, profile=None):
    p = dict(DEFAULT_PROFILE)
    p.update(profile or {})
    lo, hi = p["n_attrs"]
    n = src.randint(lo, hi)
    kinds = list(p["kinds"])
    chosen = list(p["force_kinds"])
    while len(chosen) < n:
        # bias: ~45% containers
        k = src.choice(kinds)
        chosen.append(k)
    src.shuffle(chosen)
    used = set()
    attrs = []
    for kind in chosen:
        names = [nm for nm in KIND_NAMES[kind] if nm not in used]
        if not names:
            continue
        name = names[0]
        used.add(name)
        a = {"name": name, "kind": kind, "default": gen_default(src, kind), "flags": {}}
        if p["allow_bad_defaults"] and kind in ("int", "str", "float", "bounded", "validated", "lit", "union") and src.chance(0.1):
            # a class-level default that does not conform to the annotation (the common `x: int = None`): legal to
            # declare; the instance must then be given a value, and a reset / delete must not establish the default
            bad = [v for v in bad_values(kind) if not isinstance(v, list) or v[0] == "float"]
            a["default"] = [src.choice(["lit", "attr"]), src.choice(bad)]
            a["bad_default"] = True
        if p["allow_attr_dnc"] and src.chance(0.12):
            a["flags"]["do_not_copy"] = True
        if p["allow_init_false"] and src.chance(0.06) and a["default"][0] != "none":
            a["flags"]["init"] = False
        if p["allow_foreign_defaults"] and kind in ("klist", "kset", "list_leaf", "list_kitem") \
                and a["default"][0] != "none" and a["flags"].get("init") is not False and src.chance(0.3):
            # the default spelled in another container type than the declared one (a plain list for a KeyedList /
            # KeyedSet, a tuple for a List): the constructor rebuilds it into the declared container
            val = a["default"][1]
            if isinstance(val, list) and len(val) == 2:
                a["default"][1] = ["list" if kind in ("klist", "kset") else "tuple", val[1]]
        if src.chance(0.08):
            a["flags"]["repr"] = False
        if src.chance(0.08):
            a["flags"]["compare"] = False
        if p["allow_preparers"] and src.chance(0.5 if (kind == "leaf" and p["allow_lookup_preparer"]) else 0.15):
            if kind in ("int", "bounded"):
                a["prepare"] = src.choice(["ident", "abs", "str2int"])
            elif kind == "str":
                a["prepare"] = src.choice(["ident", "strip"])
            elif kind == "list_int":
                a["prepare"] = src.choice(["ident", "tup2list"])
            elif kind == "leaf" and p["allow_lookup_preparer"] and src.chance(0.7):
                a["prepare"] = "lookup_" + name  # (attribute names of this kind are leaf / twig)
            else:
                a["prepare"] = "ident"
        if p["allow_item_preparers"] and kind in COLL_KINDS and src.chance(0.2):
            if ITEM_KIND[kind] == "int":
                a["prepare_item"] = src.choice(["ident", "dbl", "str2int"])
            elif ITEM_KIND[kind] == "kitem":
                a["prepare_item"] = src.choice(["ident", "id2key", "id2key"])
            else:
                a["prepare_item"] = "ident"
        attrs.append(a)
    for a in list(attrs):
        if str(a.get("prepare", "")).startswith("lookup_"):
            peer = "twig" if a["name"] == "leaf" else "leaf"
            if peer not in used:
                # the object the lookup resolves to lives in the sibling nested attribute: make sure there is one
                used.add(peer)
                attrs.append({"name": peer, "kind": "leaf", "default": ["lit", good_value(src, "leaf", small=True)], "flags": {}})
    names = [a["name"] for a in attrs]
    if p["allow_invalidated_by"] and len(attrs) >= 2:
        for pos, a in enumerate(attrs):
            # acyclic by construction: an attribute may only be invalidated by earlier ones
            if pos and a["default"][0] != "none" and src.chance(0.15):
                a["flags"]["invalidated_by"] = [src.choice(names[:pos])]
    host = {
        "attrs": attrs,
        "options": {},
        "props": [],
        "post_init": False,
        "post_copy": False,
    }
    if p["allow_key"] and src.chance(0.25):
        host["options"]["key"] = "name"
        host["key_default"] = gen_default(src, "str") if src.chance(0.4) else ["none"]
        host["key_pos"] = src.randint(0, len(attrs)) if src.chance(0.6) else 0
    if p["allow_frozen"] and src.chance(0.5):
        host["options"]["frozen"] = True
    parent_only_dnc = bool(p.get("allow_parent_class_dnc")) and p["allow_sub"] and src.chance(0.1)
    if parent_only_dnc:
        # the parent is declared do_not_copy=True as a whole; a decorated subclass does not inherit that (the option is
        # reset per decorated class), so the subclass copies like any other class -- only ITS instances are created
        host["options"]["do_not_copy"] = True
    elif p["allow_class_dnc"] and src.chance(0.1):
        host["options"]["do_not_copy"] = True
    elif p["allow_attr_dnc"] and src.chance(0.2) and names:
        host["options"]["do_not_copy"] = [src.choice(names)]
    host["options"]["bootstrap"] = not src.chance(p["p_lazy"])
    if p["allow_props"] and src.chance(0.5):
        nprops = src.randint(1, 2)
        for i in range(nprops):
            deps = src.sample(names, min(len(names), src.randint(1, 2)))
            if src.chance(0.1):
                deps = ["*"]
            host["props"].append({
                "name": f"prop{i}",
                "cache": src.chance(0.7),
                "overridable": src.chance(0.8),
                "invalidated_by": deps,
                "reads": [d for d in deps if d != "*"] or names[:1],
            })
            if p["allow_mutable_props"]:
                host["props"][-1]["returns"] = src.choice(["summary", "fresh", "alias"])
    if p["allow_hooks"]:
        host["post_init"] = src.chance(0.2)
        if p["allow_mutable_props"] and src.chance(0.5):
            host["post_init"] = host["post_init"] or True
            host["post_init_scratch"] = True
        if p["allow_post_init_keep"] and src.chance(0.3):
            # __post_init__ keeps a copy of the instance under construction, made by one of the routes that copy
            host["post_init"] = "keep"
            host["post_init_route"] = src.choice(["deepcopy", "reset", "update", "transform", "with"])
        host["post_copy"] = src.chance(0.25)
        if p.get("allow_post_copy_assign") and src.chance(0.5):
            host["post_copy"] = "assign"  # the hook finishes the copy by assigning to it (the documented use)
    if p["allow_new_shapes"] and src.chance(0.5):
        # where instance creation comes from: the class's own __new__, a plain base class providing it, a plain
        # mix-in in front (nothing of its own), or the mix-in in front of the base that provides it
        host["new_shape"] = src.choice(["own", "base", "mixin", "mixin_base"])
    spec = {
        "leaf": {"frozen": False, "post_copy": p["allow_hooks"] and src.chance(0.15),
                 # the nested class itself has an attribute that another one invalidates (w: int = 10, reset by p)
                 "inv": bool(p["allow_leaf_inv"] and src.chance(0.5))},
        "kitem": {"frozen": False},
        "host": host,
        "sub": None,
    }
    if parent_only_dnc:
        spec["only_roles"] = ["sub"]
    if p["allow_sub"] and (src.chance(p["p_sub"]) or parent_only_dnc):
        skind = src.choice(["spec", "plain", "spec"]) if not parent_only_dnc else "spec"
        sub = {"kind": skind, "redefault": [], "redeclare": [], "extra": []}
        cands = [a for a in attrs if not a.get("flags")]
        for a in src.sample(cands, min(len(cands), src.randint(0, 2))):
            entry = {"name": a["name"], "value": good_value(src, a["kind"], small=True)}
            if p["allow_bad_defaults"] and a["kind"] in ("int", "str", "float", "bounded", "validated", "lit", "union") \
                    and src.chance(0.2):
                entry["value"] = src.choice([v for v in bad_values(a["kind"]) if not isinstance(v, list) or v[0] == "float"])
                entry["bad_default"] = True
            if skind == "spec" and src.chance(0.4):
                sub["redeclare"].append(entry)
            else:
                sub["redefault"].append(entry)
        if skind == "spec" and src.chance(0.5):
            extra_kind = src.choice(["int", "list_int", "str"])
            nm = [n2 for n2 in KIND_NAMES[extra_kind] if n2 not in used]
            if nm:
                sub["extra"].append({"name": nm[-1], "kind": extra_kind,
                                     "default": gen_default(src, extra_kind), "flags": {}})
        sub["options"] = {"bootstrap": not src.chance(p["p_lazy"])}
        if p["allow_new_shapes"] and src.chance(0.4):
            sub["mixin_first"] = True  # class Sub(Mixin, Host)
        if p["allow_new_shapes"] and src.chance(0.35):
            sub["own_new"] = True  # the subclass has a cooperative __new__ of its own (calls super().__new__(cls))
            if src.chance(0.3):
                sub["own_new"] = "direct"  # ... or one that allocates with object.__new__(cls) and never reaches the parents'
        elif p["allow_new_shapes"] and host.get("new_shape") in (None, "mixin") and src.chance(0.3):
            # class Sub(Host, LateNew): instance creation comes from a base that stands AFTER the (lazily bootstrapped)
            # parent in the subclass's MRO, the parent itself having no __new__ anywhere above it
            sub["late_new_base"] = True
        if skind == "spec":
            # keep per-attribute do_not_copy unambiguous across the spec subclass
            dnc = [a["name"] for a in attrs if a.get("flags", {}).get("do_not_copy")]
            if isinstance(host["options"].get("do_not_copy"), list):
                dnc += [n2 for n2 in host["options"]["do_not_copy"] if n2 not in dnc]
            # ... or differing from the parent's by one attribute: the subclass's own declaration then decides for its
            # instances, and the parent's instances keep the parent's (Attr-flagged attributes stay in both lists)
            if p["allow_attr_dnc"] and host["options"].get("do_not_copy") is not True:
                mode = src.choice(["same", "add_one", "drop_one"])
                flagged = {a["name"] for a in attrs if a.get("flags", {}).get("do_not_copy")}
                touched = {e["name"] for e in sub["redeclare"] + sub["redefault"]}
                if mode == "add_one":
                    cands = [a["name"] for a in attrs if a["name"] not in dnc and a["name"] not in touched]
                    if cands:
                        dnc = dnc + [src.choice(cands)]
                elif mode == "drop_one":
                    # (an Attr(do_not_copy=True) flag of the parent can be dropped as well: the subclass's decorator decides)
                    cands = [n2 for n2 in dnc if n2 not in touched]
                    if cands:
                        x = src.choice(cands)
                        dnc = [n2 for n2 in dnc if n2 != x]
                        if x in flagged:
                            sub["dnc_dropped"] = [x]
            if dnc:
                sub["options"]["do_not_copy"] = dnc
        if p["allow_two_levels"] and src.chance(0.35):
            # a second level of subclassing: an intermediate class (plain or spec) between the parent and the subclass,
            # which may override one inherited default; the roles stay parent / subclass, the hierarchy gets deeper
            via = {"kind": src.choice(["plain", "plain", "spec"]), "redefault": []}
            taken = {e["name"] for e in sub["redeclare"] + sub["redefault"]}
            cands = [a for a in attrs if not a.get("flags") and a["name"] not in taken]
            if cands and src.chance(0.6):
                a = src.choice(cands)
                via["redefault"].append({"name": a["name"], "value": good_value(src, a["kind"], small=True)})
            if via["kind"] == "spec":
                dnc0 = [a["name"] for a in attrs if a.get("flags", {}).get("do_not_copy")]
                if isinstance(host["options"].get("do_not_copy"), list):
                    dnc0 += [n2 for n2 in host["options"]["do_not_copy"] if n2 not in dnc0]
                via["options"] = {"bootstrap": not src.chance(p["p_lazy"])}
                if dnc0:
                    via["options"]["do_not_copy"] = dnc0  # same declaration as the parent's
            sub["via"] = via
        spec["sub"] = sub
    return spec


# ----------------------------------------------------------------------------
# Values


def good_value(src, kind, small=False):
    """A conforming valref for an attribute (or item) of `kind`."""
    if kind == "int":
        return src.choice([0, 1, 2, 3, -1, 7])
    if kind == "str":
        return src.choice(["", "a", "b", "xy", "hello"])
    if kind == "float":
        return src.choice([["float", "0.0"], ["float", "1.5"], 2, ["float", "-3.25"]])
    if kind == "optint":
        return src.choice([None, 0, 5])
    if kind == "union":
        return src.choice([0, 4, "", "u"])
    if kind == "lit":
        return src.choice(["a", "b"])
    if kind == "bounded":
        return src.choice([0, 1, 10])
    if kind == "validated":
        return src.choice([0, 2, -4, 8])
    if kind == "litint":
        return src.choice([1, 2])
    if kind == "tup2":
        return ["tuple", [src.choice([0, 1, 5]), src.choice(["", "a", "xy"])]]
    if kind == "tupvar":
        return ["tuple", [src.choice([0, 1, 2, 3]) for _ in range(src.randint(0, 3))]]
    if kind == "any":
        return src.choice([
            ["mod", "sys"],
            ["list", [["mod", "sys"], ["dict", [["m", ["mod", "os"]]]]]],
            ["dict", [["a", ["list", [["mod", "math"], ["list", [["mod", "os"]]]]]]]],
            ["box", ["mod", "os"]],
            ["list", [["box", ["list", [["mod", "sys"]]]], 1]],
            ["tuple", [["mod", "math"], ["list", []]]],
            3, "s", ["list", []], None,
        ])
    if kind == "list_int":
        n = src.randint(0, 2 if small else 4)
        return ["list", [src.choice([0, 1, 2, 3, 1, 0]) for _ in range(n)]]
    if kind == "dict_int":
        n = src.randint(0, 2 if small else 3)
        keys = src.sample(["a", "b", "c", ""], n)
        return ["dict", [[k, src.choice([0, 1, 2, 5])] for k in keys]]
    if kind == "set_int":
        n = src.randint(0, 2 if small else 3)
        return ["set", sorted(set(src.choice([0, 1, 2, 3, 5]) for _ in range(n)))]
    if kind == "leaf":
        kw = {}
        if src.chance(0.6):
            kw["p"] = src.choice([0, 1, 2, 5])
        if src.chance(0.5):
            kw["q"] = src.choice(["", "q", "r"])
        if src.chance(0.3):
            kw["notes"] = ["list", [src.choice(["n", "m", ""]) for _ in range(src.randint(0, 2))]]
        return ["leaf", kw]
    if kind == "kitem":
        kw = {"k": src.choice(["a", "b", "c", "d", ""])}
        if src.chance(0.6):
            kw["v"] = src.choice([0, 1, 2, 9])
        return ["kitem", kw]
    if kind in ("list_leaf",):
        v = ["tuple" if (not small and src.chance(0.12)) else "list",
             [good_value(src, "leaf") for _ in range(src.randint(0, 2 if small else 3))]]
        if not small and v[1] and src.chance(0.15):
            # the very same element object at several positions (a plain list does not mind)
            v[1].insert(src.randint(0, len(v[1])), ["dup", 0])
            v[1].append(["dup", 0]) if src.chance(0.4) else None
            if v[1][0] == ["dup", 0]:
                v[1][0], v[1][1] = v[1][1], v[1][0]
        return v
    if kind == "list_optleaf":
        return ["list", [None if src.chance(0.2) else good_value(src, "leaf") for _ in range(src.randint(0, 2 if small else 3))]]
    if kind == "list_optint":
        return ["list", [src.choice([0, 1, 2, None, None, 3]) for _ in range(src.randint(0, 2 if small else 4))]]
    if kind == "dict_optint":
        keys = src.sample(["a", "b", "c", ""], src.randint(0, 2 if small else 3))
        return ["dict", [[k, src.choice([0, None, 0, 1, 2, None, 5])] for k in keys]]
    if kind == "dict_leaf":
        keys = src.sample(["a", "b", "c", ""], src.randint(0, 2 if small else 3))
        v = ["dict", [[k, good_value(src, "leaf")] for k in keys]]
        if not small and len(v[1]) >= 2 and src.chance(0.15):
            v[1][-1][1] = ["dup", 0]  # the same element object under two keys
        return v
    if kind in ("list_kitem", "klist", "kset"):
        keys = src.sample(["a", "b", "c", "d", ""], src.randint(0, 2 if small else 3))
        items = [["kitem", {"k": k, **({"v": src.choice([0, 1, 2])} if src.chance(0.5) else {})}] for k in keys]
        tag = {"list_kitem": "list", "klist": "klist", "kset": "kset"}[kind]
        # the everyday spelling: a plain list (or tuple) handed to a KeyedList / KeyedSet / List attribute, which the
        # library rebuilds into the declared container
        # (argument values only: declared defaults keep the declared container type)
        u = 1.0 if small else src.random()
        if kind in ("klist", "kset") and u < 0.3:
            tag = "list" if u < 0.22 else "tuple"
        elif kind == "list_kitem" and u < 0.12:
            tag = "tuple"
        return [tag, items]
    if kind == "dict_kitem":
        keys = src.sample(["a", "b", "c", ""], src.randint(0, 2 if small else 3))
        return ["dict", [[k, ["kitem", {"k": k}]] for k in keys]]
    raise HarnessError(f"unknown kind {kind}")


def bad_values(kind):
    """Non-conforming valrefs for a whole attribute value of `kind` (each wrong somewhere)."""
    if kind == "int":
        return ["s", None, ["float", "1.5"], ["list", [1]], ["float", "1.0"], ["float", "0.0"]]
    if kind == "str":
        return [0, None, ["list", ["a"]]]
    if kind == "float":
        return ["s", None, ["list", []]]
    if kind == "optint":
        return ["s", ["float", "0.5"], ["list", []], ["float", "5.0"], ["float", "0.0"]]
    if kind == "union":
        return [None, ["float", "0.5"], ["list", [1]], ["float", "4.0"], ["float", "0.0"]]
    if kind == "lit":
        return ["c", 0, None, ""]
    # (floats equal to conforming ints: right value, wrong type -- whatever an earlier verdict on the int was)
    if kind == "bounded":
        return [-1, "s", None, ["float", "2.5"], ["float", "1.0"], ["float", "10.0"], ["float", "0.0"]]
    if kind == "validated":
        return [1, "s", None, 3, ["float", "2.0"], ["float", "8.0"], ["float", "0.0"]]
    if kind == "litint":
        return [True, ["float", "1.0"], ["float", "2.0"], 3, 0, "1", None]
    if kind == "tup2":
        return [["tuple", [1, 2]], ["tuple", ["a", "b"]], ["tuple", [1]], ["tuple", [1, "a", 2]], ["tuple", []],
                ["list", [1, "a"]], 5, None, ["tuple", [["float", "1.0"], "a"]], ["tuple", [1, None]]]
    if kind == "tupvar":
        return [["tuple", [1, "s"]], ["list", [1]], 5, ["tuple", [None]], ["tuple", [["float", "2.0"]]],
                ["tuple", [1, 2, ["list", [3]]]]]
    if kind == "any":
        return [["mod", "os"]]  # nothing is ill-typed for Any
    if kind == "list_int":
        return [["list", [1, "s"]], ["list", [None]], 5, ["list", [["list", [1]]]], ["dict", [["a", 1]]]]
    if kind == "dict_int":
        return [["dict", [["a", "s"]]], ["dict", [[1, 1]]], ["list", [1]], 5, ["dict", [[None, 1]]]]
    if kind == "set_int":
        return [["set", [1, "s"]], 5, ["set", [None]]]
    if kind == "leaf":
        return [0, "s", ["kitem", {"k": "a"}], ["list", []]]
    if kind == "kitem":
        return [0, None, ["leaf", {}], ["list", []]]
    if kind == "list_leaf":
        return [["list", [["leaf", {}], 3]], 5, ["list", [["kitem", {"k": "a"}]]]]
    if kind == "list_optleaf":
        return [["list", [["leaf", {}], 3]], 5, ["list", [["kitem", {"k": "a"}]]]]
    if kind == "list_optint":
        return [["list", [1, "s"]], 5, ["list", [["list", [1]]]], ["dict", [["a", 1]]]]
    if kind == "dict_optint":
        return [["dict", [["a", "s"]]], ["dict", [[1, 1]]], ["list", [1]], 5]
    if kind == "dict_leaf":
        return [["dict", [["a", 3]]], ["dict", [[1, ["leaf", {}]]]], 5]
    if kind == "list_kitem":
        return [["list", [["kitem", {"k": "a"}], 3]], 5, ["list", [["leaf", {}]]]]
    if kind == "dict_kitem":
        return [["dict", [["a", 3]]], ["dict", [[1, ["kitem", {"k": "a"}]]]], 5]
    if kind == "klist":
        return [["list", [["kitem", {"k": "a"}], 3]], 5, ["list", [["kitem", {"k": "a"}], ["kitem", {"k": "a"}]]],
                ["klist_any", [["kitem", {"k": "a"}], 3]], ["klist_any", ["zz"]], ["klist_any", [["leaf", {"p": 1, "q": "u"}]]],
                # conforming items under keys of the wrong type (the container's own key function yields ints)
                ["klist_intkey", [["kitem", {"k": "a"}], ["kitem", {"k": "b"}]]], ["klist_intkey", [["kitem", {"k": "c", "v": 1}]]]]
    if kind == "kset":
        return [["list", [["kitem", {"k": "a"}], 3]], 5,
                ["kset_any", [["kitem", {"k": "a"}], 3]], ["kset_any", ["zz"]], ["kset_any", [["leaf", {"p": 1, "q": "u"}]]],
                ["kset_intkey", [["kitem", {"k": "a"}], ["kitem", {"k": "b"}]]]]
    raise HarnessError(f"unknown kind {kind}")


def bad_items(item_kind):
    if item_kind == "int":
        return ["s", None, ["float", "0.5"], ["list", [1]]]
    if item_kind == "optint":
        return ["s", ["float", "0.5"], ["list", [1]]]
    if item_kind == "leaf":
        return [3, None, ["kitem", {"k": "a"}]]
    if item_kind == "kitem":
        return [3, None, ["leaf", {}], ["float", "0.5"]]
    raise HarnessError(item_kind)


# ----------------------------------------------------------------------------
# Materialisation


class Helper:
    """Harness object whose bound methods are used as attribute values (C10)."""

    def __init__(self, tag):
        self.tag = tag

    def m1(self):
        return 1

    def m2(self):
        return 2

    def __repr__(self):
        return f"Helper({self.tag})"


class Built:
    """The real classes for one world, plus harness-side metadata about them."""

    def __init__(self):
        self.classes = {}
        self.attr_info = {}  # class role -> {attr name -> info dict}
        self.item_names = {}  # class role -> {attr name -> singular}


def annotation_for(kind, classes, faults):
    _, KeyedList, KeyedSet, bounded, validated = _lib()
    Leaf, KItem = classes.get("leaf"), classes.get("kitem")
    if kind == "int":
        return int
    if kind == "str":
        return str
    if kind == "float":
        return float
    if kind == "optint":
        return Optional[int]
    if kind == "union":
        return Union[int, str]
    if kind == "lit":
        return Literal["a", "b"]
    if kind == "bounded":
        return bounded(int, ge=0)
    if kind == "validated":
        return validated(make_callback(faults, "validator", is_even_int), name="Even")
    if kind == "litint":
        return Literal[1, 2]
    if kind == "tup2":
        return typing.Tuple[int, str]
    if kind == "tupvar":
        return typing.Tuple[int, ...]
    if kind == "any":
        return typing.Any
    if kind == "list_int":
        return List[int]
    if kind == "dict_int":
        return Dict[str, int]
    if kind == "set_int":
        return Set[int]
    if kind == "leaf":
        return Leaf
    if kind == "list_leaf":
        return List[Leaf]
    if kind == "list_optleaf":
        return List[Optional[Leaf]]
    if kind == "list_optint":
        return List[Optional[int]]
    if kind == "dict_optint":
        return Dict[str, Optional[int]]
    if kind == "dict_leaf":
        return Dict[str, Leaf]
    if kind == "list_kitem":
        return List[KItem]
    if kind == "dict_kitem":
        return Dict[str, KItem]
    if kind == "klist":
        return KeyedList[KItem, str]
    if kind == "kset":
        return KeyedSet[KItem, str]
    raise HarnessError(kind)


def build_value(v, classes, faults=None):
    """valref -> fresh Python object."""
    if not isinstance(v, list):
        return v
    tag, payload = v[0], v[1] if len(v) > 1 else None
    b = lambda x: build_value(x, classes, faults)  # noqa: E731
    if tag in ("list", "tuple"):
        out = []
        for x in payload:
            # ["dup", j]: the same object as element j (built before it)
            out.append(out[x[1]] if (isinstance(x, list) and len(x) == 2 and x[0] == "dup") else b(x))
        return out if tag == "list" else tuple(out)
    if tag == "dict":
        out, vals = {}, []
        for k, x in payload:
            vals.append(vals[x[1]] if (isinstance(x, list) and len(x) == 2 and x[0] == "dup") else b(x))
            out[b(k)] = vals[-1]
        return out
    if tag == "set":
        return {b(x) for x in payload}
    if tag == "float":
        return float(payload)
    if tag == "box":
        return Box(b(payload))
    if tag == "bomb":
        return Bomb(True, signal=(payload == "signal"))  # copying it raises (an Exception, or a cancellation signal)
    if tag == "catchbomb":
        # a container that survives the failing copy of a spec instance nested in it: Catcher(Carrier(payload=<armed>))
        carrier = classes["__carrier__"](payload=Bomb(False, signal=(payload == "signal")))
        carrier.payload.armed = True
        return Catcher(carrier)
    if tag == "leaf":
        return classes["leaf"](**{k: b(x) for k, x in payload.items()})
    if tag == "kitem":
        kw = {k: b(x) for k, x in payload.items()}
        return classes["kitem"](**kw)
    if tag == "host" or tag == "sub":
        return classes[tag](**{k: b(x) for k, x in payload.items()})
    if tag == "klist_any":  # an *untyped* KeyedList: accepts any hashable / keyed item
        _, KeyedList, _, _, _ = _lib()
        return KeyedList([b(x) for x in payload])
    if tag == "kset_any":
        _, _, KeyedSet, _, _ = _lib()
        return KeyedSet([b(x) for x in payload])
    if tag in ("klist_intkey", "kset_intkey"):
        _, KeyedList, KeyedSet, _, _ = _lib()
        C = KeyedList if tag == "klist_intkey" else KeyedSet
        return C([b(x) for x in payload], key=lambda item: sum(map(ord, item.k)) * 10 + len(item.k))
    if tag in ("klist_fn", "kset_fn"):
        # the container comes with a key function of the user's own (same keys as the default one: what differs is that
        # it is a user callback, which may raise)
        _, KeyedList, KeyedSet, _, _ = _lib()
        keyfn = (lambda item: item.k)
        if faults is not None:
            keyfn = make_callback(faults, "keyfn", keyfn)
        C = KeyedList if tag == "klist_fn" else KeyedSet
        return C[classes["kitem"], str]([b(x) for x in payload], key=keyfn)
    if tag == "klist":
        _, KeyedList, _, _, _ = _lib()
        return KeyedList[classes["kitem"], str]([b(x) for x in payload])
    if tag == "kset":
        _, _, KeyedSet, _, _ = _lib()
        return KeyedSet[classes["kitem"], str]([b(x) for x in payload])
    if tag == "fn":
        fn = FUNCS[payload]
        if faults is None:
            return fn
        return make_callback(faults, f"fn:{payload}", fn)
    if tag == "sent":
        import spec_classes

        return getattr(spec_classes, payload)
    if tag == "mod":
        return {"os": os, "sys": sys, "math": math}[payload]
    if tag == "func":
        return FUNCS[payload]
    if tag == "cls":
        return {"int": int, "str": str, "leaf": classes["leaf"], "kitem": classes["kitem"]}[payload]
    if tag == "bmeth":
        return getattr(classes["__" + payload[0] + "__"], payload[1])
    raise HarnessError(f"bad valref {v!r}")


def _default_entry(default, flags, classes, faults, attr_name, prepare=None, prepare_item=None):
    """-> value to put in the class namespace, or dataclasses.MISSING sentinel `_NOTHING`."""
    from spec_classes import Attr

    style = default[0]
    needs_attr = bool(flags)
    akw = {}
    for f in ("init", "repr", "compare", "do_not_copy", "invalidated_by"):
        if f in flags:
            akw[f] = flags[f]
    if style == "none":
        if needs_attr:
            return Attr(**akw)
        return _NOTHING
    val = default[1]
    if style == "lit" and not needs_attr:
        return build_value(val, classes, None)
    if style in ("lit", "attr"):
        return Attr(default=build_value(val, classes, None), **akw)
    if style in ("factory", "field_factory") or (style == "field" and isinstance(val, list)):
        def factory(_val=val, _classes=classes):
            faults.hit(f"factory:{attr_name}")
            return build_value(_val, _classes, None)

        if style == "factory" or "do_not_copy" in akw or "invalidated_by" in akw:
            return Attr(default_factory=factory, **akw)
        return dataclasses.field(default_factory=factory, **akw)
    if style == "field":
        if "do_not_copy" in akw or "invalidated_by" in akw:
            return Attr(default=build_value(val, classes, None), **akw)
        return dataclasses.field(default=build_value(val, classes, None), **akw)
    raise HarnessError(style)


_NOTHING = object()


def _has_module(v):
    if isinstance(v, list):
        if v and v[0] == "mod":
            return True
        return any(_has_module(x) for x in v)
    if isinstance(v, dict):
        return any(_has_module(x) for x in v.values())
    return False


def make_getter(faults, pname, reads, returns="summary"):
    def getter(self):
        faults.hit(f"getter:{pname}")
        if returns == "alias":
            # a fresh list holding the attribute objects themselves: cached, it is unmanaged instance state that
            # refers into the instance's own graph
            return [self.__dict__.get(r, None) for r in reads]
        out = []
        for r in reads:
            v = self.__dict__.get(r, None)
            out.append(_summ(v))
        if returns == "fresh":
            return [list(out)]  # a new mutable object per computation
        return tuple(out)

    getter.__name__ = pname
    return getter


def _summ(v, _d=0):
    """Pure, total summary of an attribute value used by generated property getters."""
    if isinstance(v, (int, float, str, bool)) or v is None:
        return v
    import types as _t

    if isinstance(v, _t.ModuleType):
        return ("module", v.__name__)
    if _d > 6 or isinstance(v, type) or callable(v):
        return ("other", type(v).__name__)
    if isinstance(v, (list, tuple)):
        return ("seq", len(v), tuple(_summ(e, _d + 1) for e in v))
    if isinstance(v, dict):
        return ("map", tuple((k, _summ(x, _d + 1)) for k, x in v.items()))
    if isinstance(v, (set, frozenset)):
        return ("set", tuple(sorted(_summ(e, _d + 1) for e in v if isinstance(e, (int, str)))))
    d = getattr(v, "__dict__", None)
    if d is not None and "_list" in d:
        return ("klist", tuple(_summ(e, _d + 1) for e in d["_list"]))
    if d is not None and "_dict" in d:
        return ("kset", tuple(_summ(e, _d + 1) for e in d["_dict"].values()))
    if d is not None:
        return ("obj", type(v).__name__, tuple((k, _summ(x, _d + 1)) for k, x in sorted(d.items()) if not k.startswith("__")))
    return ("other", type(v).__name__)


def materialise(spec, faults, name_suffix=""):
    """Build real classes from a class spec.  Returns a `Built`."""
    spec_classes, KeyedList, KeyedSet, bounded, validated = _lib()
    from spec_classes import Attr, spec_class, spec_property

    B = Built()
    classes = B.classes
    classes["__h1__"] = Helper("h1")
    classes["__carrier__"] = spec_class(bootstrap=True)(type("Carrier", (), {
        "__module__": "specsim.generated", "__annotations__": {"payload": typing.Any}, "payload": None}))
    classes["__h2__"] = Helper("h2")

    # Leaf --------------------------------------------------------------
    lns = {"__annotations__": {"p": int, "q": str, "notes": List[str]}, "p": 1, "notes": []}
    lns["__module__"] = "specsim.generated"
    lns["__hash__"] = lambda self: hash(("Leaf", self.__dict__.get("p"), self.__dict__.get("q")))
    lns["__qualname__"] = "Leaf"
    if spec["leaf"].get("post_copy"):
        def leaf_post_copy(self):
            faults.hit("post_copy:leaf")
        lns["__post_copy__"] = leaf_post_copy
    if spec["leaf"].get("inv"):
        from spec_classes import Attr as _Attr
        lns["__annotations__"] = {"w": int, **lns["__annotations__"]}
        lns["w"] = _Attr(default=10, invalidated_by=["p"])
    Leaf = type("Leaf", (), lns)
    Leaf = spec_class(frozen=bool(spec["leaf"].get("frozen")))(Leaf)
    classes["leaf"] = Leaf
    # KItem -------------------------------------------------------------
    kns = {"__annotations__": {"k": str, "v": int}, "v": 0, "__module__": "specsim.generated",
           "__qualname__": "KItem",
           # a user-defined, address-independent hash (ids would make set iteration order
           # depend on memory layout, which the simulator does not control)
           "__hash__": lambda self: hash(("KItem", self.__dict__.get("k")))}
    KItem = type("KItem", (), kns)
    KItem = spec_class(key="k", frozen=bool(spec["kitem"].get("frozen")))(KItem)
    classes["kitem"] = KItem
    B.attr_info["leaf"] = {"p": {"kind": "int"}, "q": {"kind": "str"}, "notes": {"kind": "list_str"}}
    if spec["leaf"].get("inv"):
        B.attr_info["leaf"]["w"] = {"kind": "int"}
    B.attr_info["kitem"] = {"k": {"kind": "str"}, "v": {"kind": "int"}}

    # Host --------------------------------------------------------------
    h = spec["host"]
    ns = {"__module__": "specsim.generated", "__qualname__": "Host" + name_suffix}
    ann = {}
    info = {}
    def declare_key():
        ann["name"] = str
        kd = h.get("key_default", ["none"])
        ent = _default_entry(kd, {}, classes, faults, "name")
        if ent is not _NOTHING:
            ns["name"] = ent
        info["name"] = {"kind": "str", "default": kd, "flags": {}, "is_key": True}

    # the key attribute is declared at any position of the class body (declaration order is what repr / eq / the
    # constructor signature follow, wherever the key sits)
    key_pos = h.get("key_pos", 0) if h["options"].get("key") else None
    for pos, a in enumerate(h["attrs"]):
        if key_pos == pos:
            declare_key()
        ann[a["name"]] = annotation_for(a["kind"], classes, faults)
        ent = _default_entry(a["default"], a.get("flags", {}), classes, faults, a["name"])
        if ent is not _NOTHING:
            ns[a["name"]] = ent
        info[a["name"]] = dict(a)
        if a.get("prepare"):
            fn = PREPARERS[a["prepare"]]
            ns[f"_prepare_{a['name']}"] = make_callback(faults, f"prepare:{a['name']}", fn)
    if key_pos is not None and "name" not in ann:
        declare_key()
    ns["__annotations__"] = ann
    for pr in h.get("props", []):
        g = make_getter(faults, pr["name"], pr["reads"], pr.get("returns", "summary"))
        ns[pr["name"]] = spec_property(g, cache=pr["cache"], overridable=pr["overridable"],
                                       invalidated_by=pr["invalidated_by"])
    B.kept = kept = []
    if h.get("post_init"):
        route = h.get("post_init_route") if h.get("post_init") == "keep" else None
        first_attr = h["attrs"][0]["name"] if h["attrs"] else None

        scratch = bool(h.get("post_init_scratch"))

        def post_init(self):
            faults.hit("post_init:host")
            if scratch:
                # unmanaged instance state set up by __post_init__ (a mutable object no Attr describes)
                self.__dict__["scratch_"] = [self.__class__.__name__]
            if route is None:
                return
            import copy as _copy
            if route == "deepcopy":
                kept.append(_copy.deepcopy(self))
            elif route == "reset":
                kept.append(self.reset())
            elif route == "update":
                kept.append(self.update())
            elif route == "transform":
                kept.append(self.transform())
            elif first_attr is not None and first_attr in self.__dict__:
                kept.append(getattr(self, "with_" + first_attr)(self.__dict__[first_attr]))
        ns["__post_init__"] = post_init
    if h.get("post_copy"):
        def post_copy(self):
            faults.hit("post_copy:host")
            if h["post_copy"] == "assign":
                self.copies_ = getattr(self, "copies_", 0) + 1
        ns["__post_copy__"] = post_copy
    # item preparers need the singular name, which the library decides; we compute it
    # with the library's own naming helper (naming is not under test here).
    from spec_classes.utils.naming import get_singular_form

    attr_names = set(ann)
    for a in h["attrs"]:
        if a["kind"] in COLL_KINDS:
            sing = get_singular_form(a["name"])
            if sing in attr_names:
                sing = f"{a['name']}_item"
            info[a["name"]]["item_name"] = sing
            if a.get("prepare_item"):
                fn = ITEM_PREPARERS[a["prepare_item"]]
                ns[f"_prepare_{sing}"] = make_callback(faults, f"prepare_item:{a['name']}", fn)
    opts = dict(h["options"])
    B.new_log = new_log = []

    def _nm(cls):
        return cls.__name__[:len(cls.__name__) - len(name_suffix)] if name_suffix else cls.__name__

    def _sig(args, kwargs):
        # what the user's __new__ was handed: it sees the constructor's arguments
        return f"({len(args)},{','.join(sorted(kwargs))})"

    class Mixin:
        def describe(self):
            return type(self).__name__

    class NewBase:
        def __new__(cls, *args, **kwargs):
            new_log.append("base:" + _nm(cls) + _sig(args, kwargs))
            return object.__new__(cls)

    shape = h.get("new_shape")
    bases = {None: (), "own": (), "base": (NewBase,), "mixin": (Mixin,), "mixin_base": (Mixin, NewBase)}[shape]
    if shape == "own":
        def own_new(cls, *args, **kwargs):
            new_log.append("own:" + _nm(cls) + _sig(args, kwargs))
            return object.__new__(cls)
        ns["__new__"] = own_new
    Host = type("Host" + name_suffix, bases, ns)
    Host = spec_class(**opts)(Host)
    classes["host"] = Host
    B.attr_info["host"] = info

    # Sub ---------------------------------------------------------------
    sub = spec.get("sub")
    if sub:
        sns = {"__module__": "specsim.generated", "__qualname__": "Sub" + name_suffix}
        sinfo = {k: dict(v) for k, v in info.items()}
        sann = {}
        for x in sub.get("dnc_dropped", []):
            sinfo[x]["flags"] = {k: v for k, v in sinfo[x].get("flags", {}).items() if k != "do_not_copy"}
        Parent = Host
        via = sub.get("via")
        if via:
            mns = {"__module__": "specsim.generated", "__qualname__": "Mid" + name_suffix}
            for e in via.get("redefault", []):
                mns[e["name"]] = build_value(e["value"], classes, None)
                sinfo[e["name"]]["default"] = ["lit", e["value"]]
                sinfo[e["name"]]["redefaulted"] = True
            Parent = type("Mid" + name_suffix, (Host,), mns)
            if via["kind"] == "spec":
                Parent = spec_class(**via.get("options", {}))(Parent)
            classes["__mid__"] = Parent
        for e in sub.get("redefault", []):
            sns[e["name"]] = build_value(e["value"], classes, None)
            sinfo[e["name"]]["default"] = ["lit", e["value"]]
            sinfo[e["name"]]["redefaulted"] = True
            if e.get("bad_default"):
                sinfo[e["name"]]["bad_default"] = True
        if sub["kind"] == "spec":
            for e in sub.get("redeclare", []):
                sns[e["name"]] = build_value(e["value"], classes, None)
                sann[e["name"]] = ann[e["name"]]
                sinfo[e["name"]]["default"] = ["lit", e["value"]]
                sinfo[e["name"]]["redeclared"] = True
                sinfo[e["name"]]["flags"] = {}
            for a in sub.get("extra", []):
                sann[a["name"]] = annotation_for(a["kind"], classes, faults)
                ent = _default_entry(a["default"], a.get("flags", {}), classes, faults, a["name"])
                if ent is not _NOTHING:
                    sns[a["name"]] = ent
                sinfo[a["name"]] = dict(a)
                if a["kind"] in COLL_KINDS:
                    sing = get_singular_form(a["name"])
                    if sing in set(sinfo):
                        sing = f"{a['name']}_item"
                    sinfo[a["name"]]["item_name"] = sing
            sns["__annotations__"] = sann
        if sub.get("own_new"):
            def sub_new(cls, *args, **kwargs):
                new_log.append("sub:" + _nm(cls) + _sig(args, kwargs))
                if sub["own_new"] == "direct":
                    return object.__new__(cls)  # (does not go through the parents' __new__ at all)
                return super(classes["sub"], cls).__new__(cls)
            sns["__new__"] = sub_new
        late = ()
        if sub.get("late_new_base"):
            class LateNew:
                def __new__(cls, *args, **kwargs):
                    new_log.append("late:" + _nm(cls) + _sig(args, kwargs))
                    return object.__new__(cls)
            late = (LateNew,)
        if sub.get("mixin_first"):
            class SubMixin:
                def describe_sub(self):
                    return type(self).__name__
            Sub = type("Sub" + name_suffix, (SubMixin, Parent) + late, sns)
        else:
            Sub = type("Sub" + name_suffix, (Parent,) + late, sns)
        if sub["kind"] == "spec":
            Sub = spec_class(**sub.get("options", {}))(Sub)
        classes["sub"] = Sub
        B.attr_info["sub"] = sinfo
    return B
