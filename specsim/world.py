"""
The world of one run: real classes, a pool of live instances, operation
execution with fault plans, and the seeded operation generator.

Operations are JSON descriptors:

  {"id":n,"op":"new","cls":role,"args":[valref],"kw":{name:valref}}
  {"id":n,"op":"call","on":ref,"m":method,"args":[valref],"kw":{name:valref}}
  {"id":n,"op":"set","on":ref,"a":name,"v":valref}
  {"id":n,"op":"del","on":ref,"a":name}
  {"id":n,"op":"get","on":ref,"a":name}
  {"id":n,"op":"deepcopy","on":ref}
  {"id":n,"op":"mutate","on":ref,"how":how,"v":valref}      direct container mutation (aliasing probe)

ref = {"i": op id that created the instance, "path": [["a",name]|["i",idx]|["k",key] ...]}
"""

import copy

from .core import HarnessError, InjectedFault, SimInterrupt, SimMemoryError, strip_addr
from .faults import Faults
from .grammar import (
    BAD_FNS,
    COLL_KINDS,
    FAMILY,
    GOOD_FNS,
    ITEM_KIND,
    bad_items,
    bad_values,
    build_value,
    good_value,
    materialise,
)
from .snap import _keyed_kind, is_spec_instance


class SkipOp(Exception):
    """The op names something that does not exist (after minimisation dropped its creator)."""


class Outcome:
    __slots__ = ("status", "value", "exc", "fired", "cb_log", "lines")

    def __init__(self, status, value=None, exc=None, fired=None, cb_log=None, lines=0):
        self.status = status  # ok | exc | fault | abort
        self.value = value
        self.exc = exc
        self.fired = fired
        self.cb_log = cb_log or []
        self.lines = lines

    @property
    def raised(self):
        return self.status != "ok"

    def exc_type(self):
        return type(self.exc).__name__ if self.exc is not None else None

    def summary(self):
        if self.status == "ok":
            return ["ok"]
        return [self.status, self.exc_type(), strip_addr(str(self.exc))[:160]]


class Prepared:
    __slots__ = ("fn", "args", "kw", "target", "op")

    def __init__(self, fn, args, kw, target, op):
        self.fn, self.args, self.kw, self.target, self.op = fn, args, kw, target, op


class World:
    def __init__(self, spec, suffix=""):
        self.spec = spec
        self.faults = Faults()
        self.built = materialise(spec, self.faults, suffix)
        self.classes = self.built.classes
        self.insts = {}  # op id -> instance
        self.retained = []  # (op id, [arg objects]) for constructor calls
        self.retained_kw = []  # (op id, class role, {attribute: arg object})
        self.next_id = 0

    # -- naming -----------------------------------------------------------
    def role_of(self, inst):
        t = type(inst)
        for role in ("sub", "host", "leaf", "kitem"):
            if self.classes.get(role) is t:
                return role
        return None

    def info(self, role):
        return self.built.attr_info[role]

    def build(self, v, with_faults=True):
        if isinstance(v, list) and v and v[0] == "alias":
            # not a fresh value: the very object instance v[1] currently holds in attribute v[2] (internal aliasing)
            inst = self.insts.get(v[1])
            if inst is None or v[2] not in inst.__dict__:
                raise SkipOp("alias source does not resolve")
            return inst.__dict__[v[2]]
        if isinstance(v, list) and v and v[0] == "inst":
            if v[1] not in self.insts:
                raise SkipOp("instance does not resolve")
            return self.insts[v[1]]  # another live instance itself (not a copy)
        if isinstance(v, list) and v and v[0] == "ret":
            from .snap import Returner
            # a transform returning a pre-existing object: ["ret", valref] a caller-owned one, ["ret", ["alias", i, a]]
            # another value held by an instance
            return Returner(self.build(v[1], with_faults))
        return build_value(v, self.classes, self.faults if with_faults else None)

    # -- references ---------------------------------------------------------
    def resolve(self, ref):
        if ref["i"] not in self.insts:
            raise SkipOp(f"no instance {ref['i']}")
        obj = self.insts[ref["i"]]
        for step in ref.get("path", []):
            kind, key = step
            try:
                if kind == "a":
                    obj = obj.__dict__[key]
                elif kind == "i":
                    if _keyed_kind(obj) == "KeyedList":
                        obj = obj.__dict__["_list"][key]
                    else:
                        obj = obj[key]
                elif kind == "k":
                    if _keyed_kind(obj):
                        obj = obj.__dict__["_dict"][key]
                    else:
                        obj = obj[key]
                else:
                    raise HarnessError(f"bad path step {step}")
            except (KeyError, IndexError, TypeError, AttributeError):
                raise SkipOp(f"path {ref} does not resolve") from None
        return obj

    # -- execution ----------------------------------------------------------
    def prepare(self, op):
        kind = op["op"]
        self.faults.begin(None)
        if kind == "new":
            cls = self.classes.get(op["cls"])
            if cls is None:
                raise SkipOp("no such class")
            args = [self.build(a) for a in op.get("args", [])]
            kw = {k: self.build(v) for k, v in op.get("kw", {}).items()}
            return Prepared(cls, args, kw, None, op)
        target = self.resolve(op["on"])
        if kind == "call":
            args = [self.build(a) for a in op.get("args", [])]
            kw = {k: self.build(v) for k, v in op.get("kw", {}).items()}
            try:
                fn = getattr(target, op["m"])
            except AttributeError:
                raise SkipOp(f"no method {op['m']}") from None
            return Prepared(fn, args, kw, target, op)
        if kind == "set":
            return Prepared(setattr, [target, op["a"], self.build(op["v"])], {}, target, op)
        if kind == "del":
            return Prepared(delattr, [target, op["a"]], {}, target, op)
        if kind == "get":
            return Prepared(getattr, [target, op["a"]], {}, target, op)
        if kind == "deepcopy":
            obj = target
            for lvl in range(int(op.get("wrap", 0))):  # instance nested in plain containers to depth `wrap`
                obj = [obj] if lvl % 2 == 0 else {"k": obj}
            return Prepared(copy.deepcopy, [obj], {}, target, op)
        if kind == "mutate":
            v = self.build(op.get("v"))
            how = op["how"]
            fn = {
                "append": lambda t, x: t.append(x),
                "setitem": lambda t, x: t.__setitem__(x[0], x[1]),
                "add": lambda t, x: t.add(x),
                "clear": lambda t, x: t.clear(),
                "pop": lambda t, x: t.pop(),
            }[how]
            return Prepared(fn, [target, v], {}, target, op)
        raise HarnessError(f"bad op {op}")

    def run(self, prep, plan=None, count_lines=False):
        f = self.faults
        status, val, exc = "ok", None, None
        f.begin(plan, count_lines)
        try:
            try:
                val = prep.fn(*prep.args, **prep.kw)
            finally:
                f.end()
        except RecursionError:
            raise
        except (SimInterrupt, SimMemoryError) as e:
            status, exc = "abort", e
        except InjectedFault as e:
            status, exc = "fault", e
        except Exception as e:
            status, exc = ("fault" if f.fired and f.fired[0] == "cb" else
                           "abort" if f.fired else "exc"), e
        except BaseException as e:  # e.g. spec_classes.errors.BaseTypeError
            if type(e).__name__ in ("KeyboardInterrupt", "SystemExit"):
                raise
            status, exc = ("fault" if f.fired and f.fired[0] == "cb" else
                           "abort" if f.fired else "exc"), e
        return Outcome(status, val, exc, f.fired, list(f.cb_log), f.line_count)

    def execute(self, op, plan=None):
        prep = self.prepare(op)
        out = self.run(prep, plan)
        self.commit(op, prep, out)
        return prep, out

    def commit(self, op, prep, out):
        """Register results of an executed op into the world."""
        if op["op"] == "new":
            self.retained.append((op["id"], list(prep.args) + list(prep.kw.values())))
            self.retained_kw.append((op["id"], op.get("cls"), dict(prep.kw)))
        if out.status == "ok" and is_spec_instance(out.value) and self.role_of(out.value) in ("host", "sub"):
            if not any(v is out.value for v in self.insts.values()):
                self.insts[op["id"]] = out.value
        kept = getattr(self.built, "kept", None)
        if kept:
            # copies a __post_init__ kept of the instance under construction: live instances like any other
            if op["op"] == "new" and out.status == "ok":
                for j, k in enumerate(kept[:2]):
                    if is_spec_instance(k) and self.role_of(k) in ("host", "sub") and \
                            not any(v is k for v in self.insts.values()):
                        # (an id derived from the constructing operation: the same in a twin world)
                        self.insts[100000 + op["id"] * 4 + j] = k
            del kept[:]

    def fresh_id(self):
        self.next_id += 1
        return self.next_id


# ----------------------------------------------------------------------------
# Operation generator.  Reads real state (observation only) to aim at valid /
# invalid indices, keys and elements; every decision ends up in the op descriptor.


def _raw(inst, name, default=None):
    v = inst.__dict__.get(name, default)
    if getattr(type(v), "__name__", "") == "_MissingType":
        return default  # a sentinel class stored as a value (only seeded defects do that): treat as missing
    return v


def _seq_items(c):
    if c is None:
        return []
    if _keyed_kind(c) == "KeyedList":
        return list(c.__dict__["_list"])
    return list(c)


def _map_items(c):
    if c is None:
        return {}
    if _keyed_kind(c) == "KeyedSet":
        return dict(c.__dict__["_dict"])
    return dict(c)


def value_to_ref(x):
    """Encode an existing simple value (int/str/leaf/kitem) back to a valref (fresh equal object)."""
    if isinstance(x, (int, str, bool)) or x is None:
        return x
    if isinstance(x, float):
        return ["float", repr(x)]
    if is_spec_instance(x):
        nm = type(x).__name__
        kw = {}
        for k, v in x.__dict__.items():
            if k.startswith("__"):
                continue
            kw[k] = value_to_ref(v)
        if nm == "Leaf":
            return ["leaf", kw]
        if nm == "KItem":
            return ["kitem", kw] if "k" in kw else None  # (an item that lost its key cannot be rebuilt)
    if isinstance(x, list):
        return ["list", [value_to_ref(e) for e in x]]
    if isinstance(x, dict):
        return ["dict", [[value_to_ref(k), value_to_ref(v)] for k, v in x.items()]]
    if isinstance(x, (set, frozenset)):
        return ["set", sorted((value_to_ref(e) for e in x), key=repr)]
    return None


class OpGen:
    """
    params:
      p_bad        probability that a generated call carries one ill-formed input
      p_inplace    probability of _inplace=True on helper calls
      p_if_false   probability of _if=False
      weights      op kind weights
      max_insts    how many instances generation keeps addressing (most recent)
    """

    DEFAULTS = {
        "p_bad": 0.2,
        "p_inplace": 0.3,
        "p_if_false": 0.04,
        "p_sentinel": 0.05,
        "p_nested_target": 0.08,
        "p_alias": 0.0,
        "any_extra": None,
        "p_returner": 0.0,
        "weights": {"new": 2, "scalar": 6, "element": 8, "toplevel": 3, "set": 3, "del": 1.5,
                    "get": 1, "deepcopy": 1, "mutate": 0},
        "max_insts": 4,
        "allow_inplace": True,
    }

    def __init__(self, src, world, params=None):
        self.src = src
        self.w = world
        self.p = dict(self.DEFAULTS)
        if params:
            for k, v in params.items():
                if k == "weights":
                    self.p["weights"] = {**self.DEFAULTS["weights"], **v}
                else:
                    self.p[k] = v
        excl = set(self.p.get("exclude_fns", ()))
        self.GOOD = {k: ([f for f in v if f not in excl] or list(v)) for k, v in GOOD_FNS.items()}
        self.excl_fns = excl

    # -- helpers ------------------------------------------------------------
    def pick_inst(self):
        ids = list(self.w.insts.keys())[-self.p["max_insts"]:]
        if not ids:
            return None
        return self.src.choice(ids)

    def flags(self, kw, inplace=None):
        s = self.src
        if inplace is None:
            inplace = self.p["allow_inplace"] and s.chance(self.p["p_inplace"])
        if inplace:
            kw["_inplace"] = True
        if s.chance(self.p["p_if_false"]):
            kw["_if"] = False
        return kw

    def good(self, kind):
        extra = self.p.get("any_extra")
        if kind == "any" and extra and self.src.chance(0.25):
            return self.src.choice(extra)
        v = good_value(self.src, kind)
        if kind in ("klist", "kset") and self.p.get("p_user_keyfn") and isinstance(v, list) and v[0] == kind \
                and self.src.chance(self.p["p_user_keyfn"]):
            v = [kind + "_fn", v[1]]
        return v

    def gen_new(self, role=None):
        s = self.src
        roles = ["host"] + (["sub"] * 2 if "sub" in self.w.classes else [])
        if self.w.spec.get("only_roles"):
            roles = list(self.w.spec["only_roles"])
        role = role or s.choice(roles)
        info = self.w.info(role)
        kw = {}
        args = []
        for name, a in info.items():
            if a.get("flags", {}).get("init") is False:
                continue
            if a.get("is_key"):
                if a["default"][0] == "none" or s.chance(0.7):
                    v = good_value(s, "str")
                    if s.chance(0.5):
                        args.append(v)
                    else:
                        kw[name] = v
                continue
            if s.chance(0.9 if a.get("bad_default") else 0.45):
                if s.chance(self.p["p_bad"] * 0.5):
                    kw[name] = s.choice(bad_values(a["kind"]))
                else:
                    kw[name] = self.good(a["kind"])
        if s.chance(self.p["p_bad"] * 0.15):
            kw["bogus"] = 1
        return {"op": "new", "cls": role, "args": args, "kw": kw}

    # -- scalar helpers -------------------------------------------------------
    def gen_scalar(self, iid, inst, name, a, inplace=None):
        s = self.src
        kind = a["kind"]
        bad = s.chance(self.p["p_bad"])
        which = s.weighted([("with", 4), ("update", 2), ("transform", 3), ("reset", 1.5)])
        kw = {}
        args = []
        if which == "with":
            m = f"with_{name}"
            if kind == "leaf" and str(a.get("prepare", "")).startswith("lookup_") and s.chance(0.4):
                # a name the attribute's preparer resolves to an object the receiver already holds + nested keywords
                args.append("@peer")
                kw.update(self._leaf_kw(bad))
            elif kind == "leaf" and s.chance(0.6):
                form = s.choice(["kw", "val_kw", "dict", "dict_kw"])
                if form == "kw":
                    kw.update(self._leaf_kw(bad))
                elif form == "val_kw":
                    args.append(self.good("leaf"))
                    kw.update(self._leaf_kw(bad))
                elif form == "dict_kw":
                    # constructor arguments as a dict AND keywords naming the same attribute: the keywords are applied last
                    args.append(["dict", [["p", self.good("int")], ["q", self.good("str")]]])
                    kw["p"] = s.choice(bad_values("int")) if bad else self.good("int")
                else:
                    args.append(["dict", [[k, v] for k, v in self._leaf_kw(bad).items()]])
            elif s.chance(self.p["p_sentinel"]):
                args.append(["sent", s.choice(["MISSING", "UNCHANGED"])])
            elif bad:
                args.append(s.choice(bad_values(kind)))
            else:
                args.append(self.good(kind))
        elif which == "update":
            m = f"update_{name}"
            if kind == "leaf":
                form = s.choice(["kw", "val", "val_kw"])
                if form in ("val", "val_kw"):
                    args.append(self.good("leaf") if not bad or form == "val_kw" else s.choice(bad_values("leaf")))
                if form in ("kw", "val_kw"):
                    kw.update(self._leaf_kw(bad))
            elif s.chance(self.p["p_sentinel"]):
                args.append(["sent", s.choice(["MISSING", "UNCHANGED"])])
            elif bad:
                args.append(s.choice(bad_values(kind)))
            else:
                args.append(self.good(kind))
        elif which == "transform":
            m = f"transform_{name}"
            fkind = kind
            if kind in ("list_leaf", "dict_leaf", "list_kitem", "dict_kitem", "klist", "kset", "list_optleaf"):
                fns_good = ([] if "ident" in self.excl_fns else ["ident"]) + {"list_leaf": ["rev", "empty_list"], "list_kitem": ["rev", "empty_list"],
                                        "list_optleaf": ["rev", "empty_list"],
                                        "dict_leaf": ["empty_dict"], "dict_kitem": ["empty_dict"],
                                        "klist": ["empty_list"], "kset": ["empty_list"]}[kind]
                fns_good = [f for f in fns_good if f not in self.excl_fns] or ["empty_list"]
                fns_bad = ["zero", "app9"] if kind.startswith("list") else ["zero"]
            else:
                fns_good, fns_bad = self.GOOD[fkind], BAD_FNS[fkind]
            if kind == "leaf" and s.chance(0.5):
                kw["p"] = ["fn", s.choice(BAD_FNS["int"] if bad else self.GOOD["int"])]
                if s.chance(0.5):
                    # positional transform and attribute transforms together; a transform that hands back the very
                    # object it was given is the aliasing case
                    fns = self.GOOD["leaf"]
                    args.append(["fn", "ident" if ("ident" in fns and s.chance(0.4)) else s.choice(fns)])
                    if self.p["p_returner"] and s.chance(self.p["p_returner"]):
                        # ... or one that hands back some other object that already exists: the caller's own instance,
                        # or what another attribute of the receiver holds
                        others = [n for n, a2 in self.w.info(self.w.role_of(inst)).items()
                                  if a2["kind"] == "leaf" and n != name and is_spec_instance(_raw(inst, n))]
                        if others and s.chance(0.5):
                            args[-1] = ["ret", ["alias", iid, s.choice(others)]]
                        else:
                            args[-1] = ["ret", self.good("leaf")]
            else:
                args.append(["fn", s.choice(fns_bad if bad else fns_good)])
                if s.chance(0.05):
                    args[-1] = ["fn", "missing"]
        else:
            m = f"reset_{name}"
            if bad and s.chance(0.3):
                kw["bogus"] = 1
        self.flags(kw, inplace)
        return {"op": "call", "on": {"i": iid}, "m": m, "args": args, "kw": kw}

    def _leaf_kw(self, bad=False):
        s = self.src
        kw = {}
        if s.chance(0.7):
            kw["p"] = s.choice(bad_values("int")) if bad and s.chance(0.5) else self.good("int")
        if s.chance(0.5) or not kw:
            kw["q"] = s.choice(bad_values("str")) if bad and "p" not in kw else self.good("str")
        if bad and s.chance(0.2):
            kw["bogus"] = 1
        if self.w.spec["leaf"].get("inv") and s.chance(0.5):
            kw = {"w": self.good("int"), **kw}  # named before the attribute that invalidates it
        return kw

    def _kitem_kw(self, bad=False, with_key=False):
        s = self.src
        kw = {}
        if with_key:
            kw["k"] = self.good("str")
        if s.chance(0.7) or not kw:
            kw["v"] = s.choice(bad_values("int")) if bad else self.good("int")
        return kw

    # -- element helpers ------------------------------------------------------
    def gen_element(self, iid, inst, name, a, inplace=None):
        s = self.src
        kind = a["kind"]
        fam = FAMILY[kind]
        ik = ITEM_KIND[kind]
        scalar_item = ik in ("int", "optint")
        sing = a["item_name"]
        cur = _raw(inst, name)
        bad = s.chance(self.p["p_bad"])
        which = s.weighted([("with", 4), ("update", 2), ("transform", 2.5), ("without", 2.5)])
        args, kw = [], {}
        good_item = lambda: self.good(ik)  # noqa: E731
        bad_item = lambda: s.choice(bad_items(ik))  # noqa: E731
        good_fn = lambda: ["fn", s.choice(self.GOOD[ik])]  # noqa: E731
        bad_fn = lambda: ["fn", s.choice(BAD_FNS[ik])]  # noqa: E731

        if fam == "seq":
            items = _seq_items(cur)
            n = len(items)

            def an_index(valid=True):
                if valid and n:
                    return s.choice(list(range(-n, n)))
                return s.choice([n, n + 1, -n - 1, 99])

            def an_index(valid=True, _plain=an_index):
                if kind == "klist" and valid and items and s.chance(0.3):
                    # a KeyedList element may be addressed by its key wherever a position is accepted
                    keys = [_raw(e, "k") for e in items if isinstance(_raw(e, "k"), str)]
                    if keys:
                        return s.choice(keys)
                return _plain(valid)

            def an_existing_value():
                if items and scalar_item and s.chance(0.12):
                    e = s.choice(items)
                    if type(e) is int:
                        # an equal value of another type finds the element (list.index compares with ==); it is the
                        # element found that is edited, not the value it was looked up by
                        return ["float", repr(float(e))] if (e not in (0, 1) or s.chance(0.5)) else bool(e)
                if items and ik == "kitem" and s.chance(0.15):
                    # same key as a stored element but not equal to it: by-value addressing is by equality
                    e = s.choice(items)
                    if isinstance(_raw(e, "k"), str):
                        return ["kitem", {"k": _raw(e, "k"), "v": self.good("int")}]
                if items and s.chance(0.8):
                    r = value_to_ref(s.choice(items))
                    if r is not None:
                        return r
                return good_item()

            if which == "with":
                form = s.weighted([("append", 4), ("index", 3), ("insert", 2), ("kw", 2 if not scalar_item else 0),
                                   ("key", 1.5 if ik == "kitem" else 0)])
                if form == "append":
                    args.append(bad_item() if bad else good_item())
                elif form in ("index", "insert"):
                    if bad and s.chance(0.5):
                        args.append(good_item())
                        kw["_index"] = an_index(valid=False)
                    else:
                        args.append(bad_item() if bad else good_item())
                        kw["_index"] = an_index() if form == "index" else s.choice(list(range(-n - 1, n + 2)))
                    if form == "insert":
                        kw["_insert"] = True
                    if kind == "klist" and s.chance(0.25):
                        # a KeyedList position may be named by key; (inserting "at a key" is what a plain list refuses)
                        keys = [_raw(e, "k") for e in items if isinstance(_raw(e, "k"), str)]
                        kw["_index"] = s.choice(keys) if keys and s.chance(0.8) else "zz"
                elif form == "kw":
                    if s.chance(0.4) and n:
                        kw["_index"] = an_index()
                        if s.chance(0.45):
                            kw["_insert"] = True  # a brand-new element built from keywords goes in at that position
                    if ik == "leaf":
                        kw.update(self._leaf_kw(bad))
                    else:
                        kw.update(self._kitem_kw(bad, with_key=True))
                else:  # bare key promoted to keyed item
                    args.append(s.choice(["a", "b", "c", "e", ""]) if not bad else 5)
                    if a.get("prepare_item") == "id2key" and s.chance(0.5):
                        args[-1] = s.choice([7, 3, 0])  # a numeric id the item preparer turns into a key
                    if s.chance(0.4):
                        kw.update(self._kitem_kw(False))
            elif which == "update":
                m_by = s.weighted([("default", 3), ("true", 1), ("false", 1)])
                if m_by == "false":
                    args.append(an_existing_value() if not (bad and s.chance(0.5)) else good_item())
                    kw["_by_index"] = False
                else:
                    args.append(an_index(valid=not (bad and s.chance(0.5))))
                    if m_by == "true":
                        kw["_by_index"] = True
                if not scalar_item and s.chance(0.6):
                    kw.update(self._leaf_kw(bad) if ik == "leaf" else self._kitem_kw(bad))
                    if s.chance(0.3):
                        args.append(good_item())
                else:
                    args.append(bad_item() if bad else good_item())
            elif which == "transform":
                m_by = s.weighted([("default", 3), ("true", 1), ("false", 1)])
                if m_by == "false":
                    args.append(an_existing_value() if not (bad and s.chance(0.5)) else good_item())
                    kw["_by_index"] = False
                else:
                    args.append(an_index(valid=not (bad and s.chance(0.5))))
                    if m_by == "true":
                        kw["_by_index"] = True
                if not scalar_item and s.chance(0.5):
                    kw["p" if ik == "leaf" else "v"] = ["fn", s.choice(BAD_FNS["int"] if bad else self.GOOD["int"])]
                else:
                    args.append(bad_fn() if bad else good_fn())
            else:
                m_by = s.weighted([("default", 3), ("true", 1), ("false", 1.5)])
                if m_by == "false" or (m_by == "default" and not scalar_item and s.chance(0.5)):
                    args.append(an_existing_value() if not bad else good_item())
                    if m_by == "false":
                        kw["_by_index"] = False
                else:
                    args.append(an_index(valid=not bad))
                    if m_by == "true":
                        kw["_by_index"] = True
        elif fam == "map":
            d = _map_items(cur)
            keys = list(d.keys())

            def a_key(existing=True):
                if existing and keys:
                    return value_to_ref(s.choice(keys))
                return s.choice([k for k in ["a", "b", "c", "d", "", "zz"] if k not in d] or ["q9"])

            if which == "with":
                key = a_key(existing=s.chance(0.4))
                if bad and s.chance(0.35):
                    key = s.choice([1, None, ["float", "0.5"]])
                    args += [key, good_item() if scalar_item or s.chance(0.6) else ["sent", "MISSING"]]
                    if ik == "kitem":
                        args[1] = ["kitem", {"k": "a"}]
                elif not scalar_item and s.chance(0.5):
                    args.append(key)
                    kw.update(self._leaf_kw(bad) if ik == "leaf" else self._kitem_kw(bad, with_key=s.chance(0.5)))
                else:
                    args += [key, bad_item() if bad else good_item()]
            elif which == "update":
                key = a_key(existing=not (bad and s.chance(0.5)))
                args.append(key)
                if not scalar_item and s.chance(0.6):
                    kw.update(self._leaf_kw(bad) if ik == "leaf" else self._kitem_kw(bad))
                else:
                    args.append(bad_item() if bad else good_item())
            elif which == "transform":
                key = a_key(existing=not (bad and s.chance(0.5)))
                args.append(key)
                if not scalar_item and s.chance(0.5):
                    kw["p" if ik == "leaf" else "v"] = ["fn", s.choice(BAD_FNS["int"] if bad else self.GOOD["int"])]
                else:
                    args.append(bad_fn() if bad else good_fn())
            else:
                args.append(a_key(existing=not bad))
        else:  # set family
            if kind == "kset":
                d = _map_items(cur)
                elems = list(d.values())
            else:
                elems = sorted(cur, key=repr) if cur else []

            def an_elem(existing=True):
                if existing and elems:
                    e = s.choice(elems)
                    if kind == "kset" and s.chance(0.5):
                        return _raw(e, "k")
                    if kind == "kset" and isinstance(_raw(e, "k"), str) and s.chance(0.35):
                        # a probe: same key, other attributes at their default or different -- membership of a
                        # KeyedSet is by key, so it addresses the stored member (which is what must be edited)
                        probe = {"k": _raw(e, "k")}
                        if s.chance(0.5):
                            probe["v"] = self.good("int")
                        return ["kitem", probe]
                    if kind == "set_int" and type(e) is int and s.chance(0.15):
                        # an equal value of another type addresses the same member (membership is by equality and
                        # hash), but is not itself a conforming member
                        return ["float", repr(float(e))]
                    r = value_to_ref(e)
                    if r is not None:
                        return r
                if kind == "kset":
                    return ["kitem", {"k": s.choice(["e", "f", "g"])}]
                return s.choice([x for x in [0, 1, 2, 3, 4, 5, 6] if x not in (cur or ())] or [77])

            if which == "with":
                if kind == "kset" and s.chance(0.4):
                    args.append(s.choice(["a", "b", "e", ""]))
                    if a.get("prepare_item") == "id2key" and s.chance(0.5):
                        args[-1] = s.choice([7, 3, 0])
                    if s.chance(0.5):
                        kw.update(self._kitem_kw(bad))
                elif kind == "kset" and s.chance(0.3):
                    kw.update(self._kitem_kw(bad, with_key=True))
                else:
                    args.append(bad_item() if bad else (an_elem(existing=s.chance(0.3))))
            elif which == "update":
                args.append(an_elem(existing=not (bad and s.chance(0.5))))
                if kind == "kset" and s.chance(0.6):
                    kw.update(self._kitem_kw(bad))
                elif isinstance(args[0], list) and args[0][:1] == ["float"] and s.chance(0.6):
                    args.append(args[0])  # the addressing value handed back as the new member
                else:
                    args.append(bad_item() if bad else good_item())
            elif which == "transform":
                args.append(an_elem(existing=not (bad and s.chance(0.5))))
                if kind == "kset" and s.chance(0.5):
                    kw["v"] = ["fn", s.choice(BAD_FNS["int"] if bad else self.GOOD["int"])]
                elif isinstance(args[0], list) and args[0][:1] == ["float"] and s.chance(0.6):
                    args.append(["fn", "ident"])
                else:
                    args.append(bad_fn() if bad else good_fn())
            else:
                args.append(an_elem(existing=not bad))
        if bad and s.chance(0.1):
            kw["bogus"] = 1
        self.flags(kw, inplace)
        return {"op": "call", "on": {"i": iid}, "m": f"{which}_{sing}", "args": args, "kw": kw}

    # -- top-level helpers ------------------------------------------------------
    def gen_toplevel(self, iid, inst, role, inplace=None, skip_attrs=()):
        s = self.src
        info = self.w.info(role)
        names = [n for n, a in info.items() if a.get("flags", {}).get("init") is not False and n not in skip_attrs]
        bad = s.chance(self.p["p_bad"])
        which = s.weighted([("update", 4), ("transform", 3), ("reset", 1.5)])
        args, kw = [], {}
        if which == "update":
            k = s.randint(1, min(3, len(names))) if names else 0
            chosen = s.sample(names, k) if k else []
            badpos = s.randint(0, len(chosen) - 1) if (bad and chosen) else -1
            for j, n in enumerate(chosen):
                a = info[n]
                kw[n] = s.choice(bad_values(a["kind"])) if j == badpos else self.good(a["kind"])
                if s.chance(self.p["p_sentinel"]):
                    kw[n] = ["sent", "MISSING"]
            if bad and not chosen:
                kw["bogus"] = 1
            if self.p["p_returner"] and kw and s.chance(self.p["p_returner"] * 0.6):
                # update(<replacement instance>, **kw): the keywords go onto (a copy of) another live instance
                peers = [i2 for i2, o2 in self.w.insts.items() if i2 != iid and type(o2) is type(inst)]
                if peers:
                    args.append(["inst", s.choice(peers)])
        elif which == "transform":
            k = s.randint(1, min(2, len(names))) if names else 0
            chosen = s.sample(names, k) if k else []
            pairs = [(d, n) for n in names for d in (info[n].get("flags", {}).get("invalidated_by") or [])
                     if d in names and d != n]
            if pairs and s.chance(0.4):
                # two attributes that interact: the dependency first, then the attribute it invalidates
                chosen = list(s.choice(pairs))
            badpos = s.randint(0, len(chosen) - 1) if (bad and chosen) else -1
            for j, n in enumerate(chosen):
                kd = info[n]["kind"]
                if kd in GOOD_FNS:
                    kw[n] = ["fn", s.choice(BAD_FNS[kd] if j == badpos else self.GOOD[kd])]
                else:
                    alt = "empty_dict" if kd.startswith("dict") else "empty_list"
                    kw[n] = ["fn", "zero" if j == badpos else (alt if "ident" in self.excl_fns else "ident")]
            if s.chance(0.15) and "ident" not in self.excl_fns:
                args.append(["fn", "ident"])
            elif self.p["p_returner"] and kw and s.chance(self.p["p_returner"]):
                peers = [i2 for i2, o2 in self.w.insts.items() if i2 != iid and type(o2) is type(inst)]
                if peers:
                    args.append(["ret", ["inst", s.choice(peers)]])  # hands back another live instance of the class
        else:
            pass
        self.flags(kw, inplace)
        if kw.get("_inplace") and args and isinstance(args[0], list) and args[0][0] in ("ret", "inst"):
            # (a whole-value transform that swaps in another object has no in-place reading: the receiver cannot become it)
            args = []
        return {"op": "call", "on": {"i": iid}, "m": which, "args": args, "kw": kw}

    # -- direct API writes --------------------------------------------------
    def gen_set(self, iid, inst, role):
        s = self.src
        info = self.w.info(role)
        if self.p["p_alias"] and s.chance(self.p["p_alias"]):
            # make two attributes of one instance hold the same mutable object (x.b = x.a): same kind, or an
            # untyped attribute as the second holder
            pairs = []
            shared_by_design = set()  # do_not_copy attributes are shared between copies on purpose: never aliased
            for sp in (self.w.spec["host"], self.w.spec.get("sub") or {}):
                opt = (sp.get("options") or {}).get("do_not_copy")
                shared_by_design.update(opt if isinstance(opt, list) else (list(info) if opt is True else []))
            shared_by_design.update(n for n, a in info.items() if a.get("flags", {}).get("do_not_copy"))
            for n1, a1 in info.items():
                v1 = _raw(inst, n1)
                if v1 is None or isinstance(v1, (int, float, str, bool, tuple, frozenset)) or n1 in shared_by_design:
                    continue
                for n2, a2 in info.items():
                    if n2 != n1 and n2 not in shared_by_design and (a2["kind"] == a1["kind"] or a2["kind"] == "any") \
                            and not a2.get("prepare") and not a2.get("prepare_item") and not a1.get("prepare_item"):
                        pairs.append((n1, n2))
            if pairs:
                n1, n2 = s.choice(pairs)
                return {"op": "set", "on": {"i": iid}, "a": n2, "v": ["alias", iid, n1]}
        name = s.choice(list(info.keys()))
        a = info[name]
        if s.chance(self.p["p_bad"]):
            v = s.choice(bad_values(a["kind"]))
        else:
            v = self.good(a["kind"])
        return {"op": "set", "on": {"i": iid}, "a": name, "v": v}

    def gen_del(self, iid, inst, role):
        s = self.src
        info = self.w.info(role)
        return {"op": "del", "on": {"i": iid}, "a": s.choice(list(info.keys()))}

    def gen_get(self, iid, inst, role):
        s = self.src
        props = [p["name"] for p in self.w.spec["host"].get("props", [])]
        if props and s.chance(0.6):
            # reading a property is what fills its cache slot (unmanaged instance state that copies must not share)
            return {"op": "get", "on": {"i": iid}, "a": s.choice(props)}
        names = list(self.w.info(role).keys()) + props
        return {"op": "get", "on": {"i": iid}, "a": s.choice(names)}

    def gen_nested_write(self, iid, inst, role):
        """In-place API write on a nested spec value (i.leaf.p = v, i.parts[0].q = v, ...)."""
        s = self.src
        info = self.w.info(role)
        cands = []
        for name, a in info.items():
            cur = _raw(inst, name)
            if cur is None:
                continue
            k = a["kind"]
            if k == "leaf" and is_spec_instance(cur):
                cands.append(([["a", name]], "leaf"))
            elif k in ("list_leaf", "list_kitem", "klist", "list_optleaf"):
                for j, el in enumerate(_seq_items(cur)):
                    if el is not None:
                        cands.append(([["a", name], ["i", j]], ITEM_KIND[k]))
            elif k in ("dict_leaf", "dict_kitem", "kset"):
                for key in _map_items(cur).keys():
                    cands.append(([["a", name], ["k", key]], ITEM_KIND[k]))
        if not cands:
            return None
        path, ik = s.choice(cands)
        if ik == "leaf":
            an, v = s.choice([("p", self.good("int")), ("q", self.good("str")),
                              ("notes", ["list", [s.choice(["n", "m"])]])])
        else:
            an, v = "v", self.good("int")
        return {"op": "set", "on": {"i": iid, "path": path}, "a": an, "v": v}

    def gen_mutate(self, iid, inst, role):
        """Direct mutation of a container the instance owns (aliasing probe)."""
        s = self.src
        info = self.w.info(role)
        cands = []
        for name, a in info.items():
            cur = _raw(inst, name)
            if cur is None:
                continue
            k = a["kind"]
            if k == "list_int":
                cands.append((name, "append", 42))
            elif k == "dict_int":
                cands.append((name, "setitem", ["tuple", ["m", 42]]))
            elif k == "set_int":
                cands.append((name, "add", 42))
            elif k in ("list_leaf", "list_optleaf"):
                cands.append((name, "append", ["leaf", {"p": 42}]))
            elif k == "dict_leaf":
                cands.append((name, "setitem", ["tuple", ["m", ["leaf", {"p": 42}]]]))
            elif k in ("list_kitem", "klist"):
                cands.append((name, "append", ["kitem", {"k": "m42"}]))
            elif k == "kset":
                cands.append((name, "add", ["kitem", {"k": "m42"}]))
        if not cands:
            return None
        name, how, v = s.choice(cands)
        return {"op": "mutate", "on": {"i": iid, "path": [["a", name]]}, "how": how, "v": v}

    # -- main entry -----------------------------------------------------------
    def gen(self, only=None, inplace=None, iid=None, skip_attrs=()):
        """only: restrict op kind(s) (str or list); iid: target instance; skip_attrs: attribute names
        that helper calls (scalar, element, top-level keywords), nested writes and direct mutations must not name
        (an in-place helper may normalise the held collection object itself, e.g. through an item preparer)."""
        s = self.src
        w = self.w
        if not w.insts:
            op = self.gen_new()
            op["id"] = w.fresh_id()
            return op
        weights = self.p["weights"]
        fixed_iid = iid
        for _ in range(20):
            if isinstance(only, (list, tuple)):
                kind = s.weighted([(k, weights.get(k, 1) or 1) for k in only])
            else:
                kind = only or s.weighted(list(weights.items()))
            if kind == "new":
                op = self.gen_new()
                break
            iid = fixed_iid if fixed_iid is not None else self.pick_inst()
            inst = w.insts[iid]
            role = w.role_of(inst)
            info = w.info(role)
            op = None
            if kind == "scalar":
                # nested spec values and collections of them reach the deep paths of the value pipeline
                # (protective copies, attribute transforms): weighted up against the scalar kinds
                cands = [(n, 3 if a["kind"] == "leaf" else (1.5 if a["kind"] in COLL_KINDS else 1))
                         for n, a in info.items() if n not in skip_attrs]
                if cands:
                    name = s.weighted(cands)
                    op = self.gen_scalar(iid, inst, name, info[name], inplace)
            elif kind == "element":
                colls = [n for n, a in info.items() if a["kind"] in COLL_KINDS and n not in skip_attrs]
                if colls:
                    name = s.choice(colls)
                    op = self.gen_element(iid, inst, name, info[name], inplace)
            elif kind == "toplevel":
                op = self.gen_toplevel(iid, inst, role, inplace, skip_attrs)
            elif kind == "set":
                if s.chance(self.p["p_nested_target"] * 3):
                    op = self.gen_nested_write(iid, inst, role)
                    if op is not None and op["on"]["path"][0][1] in skip_attrs:
                        op = None
                if op is None:
                    op = self.gen_set(iid, inst, role)
            elif kind == "del":
                op = self.gen_del(iid, inst, role)
            elif kind == "get":
                op = self.gen_get(iid, inst, role)
            elif kind == "deepcopy":
                op = {"op": "deepcopy", "on": {"i": iid}}
            elif kind == "mutate":
                op = self.gen_mutate(iid, inst, role)
                if op is not None and op["on"]["path"][0][1] in skip_attrs:
                    op = None
            elif kind == "nested":
                op = self.gen_nested_write(iid, inst, role)
                if op is not None and op["on"]["path"][0][1] in skip_attrs:
                    op = None
            if op is not None:
                break
        else:
            op = self.gen_new()
        op["id"] = w.fresh_id()
        return op
