"""
Core of the simulator: seed discipline, canonical JSON / digests, decision sources
(PRNG or recorded list), violations and signatures, known findings.

Nothing in this file reads a clock or the PRNG on a logging path.
"""

import hashlib
import json
import os
import random
import re

VERIF_DIR = os.path.dirname(os.path.dirname(os.path.abspath(__file__)))
REPO_DIR = os.environ.get("SPECSIM_REPO", "/repo")

HASHSEEDS = (0, 1, 7919, 104729)


def run_seed(prop: str, batch_seed: int, r: int) -> int:
    """One integer per run, derived without Python's hash()."""
    h = hashlib.sha256(f"{prop}:{batch_seed}:{r}".encode()).digest()
    return int.from_bytes(h[:8], "big")


def hashseed_for(seed: int) -> int:
    return HASHSEEDS[seed % len(HASHSEEDS)]


def canon(obj) -> str:
    return json.dumps(obj, sort_keys=True, separators=(",", ":"), default=_json_default)


def _json_default(o):
    if isinstance(o, (set, frozenset)):
        return {"__set__": sorted((canon(x) for x in o))}
    if isinstance(o, tuple):
        return list(o)
    return {"__repr__": strip_addr(repr(o))}


_ADDR = re.compile(r" at 0x[0-9a-fA-F]+")


def strip_addr(s: str) -> str:
    return _ADDR.sub(" at 0x?", s)


def digest(obj) -> str:
    return hashlib.sha256(canon(obj).encode()).hexdigest()[:16]


class InjectedFault(Exception):
    """F1: raised by a user callback the harness handed to the library."""


class SimInterrupt(BaseException):
    """F2: asynchronous abort delivered at a library line event."""


class SimMemoryError(MemoryError):
    """F2 variant: an Exception subclass (MemoryError) delivered at a line event."""


class HarnessError(Exception):
    """The harness itself is inconsistent; never reported as a property violation."""


# ----------------------------------------------------------------------------
# Decision source: every choice of a run comes from here.  In generation mode
# it draws from the run's PRNG and records the decision; in replay mode it
# returns the recorded decisions and never touches a PRNG.


class Source:
    def __init__(self, seed=None, recorded=None):
        self.replaying = recorded is not None
        self.rng = None if self.replaying else random.Random(seed)
        self.seed = seed

    # generation-only helpers (callers must not use them when replaying)
    def randint(self, a, b):
        return self.rng.randint(a, b)

    def random(self):
        return self.rng.random()

    def choice(self, seq):
        return seq[self.rng.randrange(len(seq))]

    def chance(self, p):
        return self.rng.random() < p

    def sample(self, seq, k):
        return self.rng.sample(list(seq), k)

    def shuffle(self, seq):
        self.rng.shuffle(seq)

    def weighted(self, pairs):
        """pairs: [(item, weight)]"""
        total = sum(w for _, w in pairs)
        x = self.rng.random() * total
        acc = 0.0
        for item, w in pairs:
            acc += w
            if x < acc:
                return item
        return pairs[-1][0]


# ----------------------------------------------------------------------------
# Violations


class Violation:
    """
    sig: small dict of strings identifying the *class* of failure
         (invariant, op kind, attribute kind, fault kind, site/effect ...)
    detail: free-form JSON-able explanation (not part of the signature)
    """

    def __init__(self, prop, sig, detail=None):
        self.prop = prop
        self.sig = {k: str(v) for k, v in sig.items()}
        self.detail = detail

    def sig_key(self):
        return canon(self.sig)

    def to_json(self):
        return {"property": self.prop, "sig": self.sig, "detail": self.detail}

    @staticmethod
    def from_json(d):
        return Violation(d["property"], d["sig"], d.get("detail"))


# ----------------------------------------------------------------------------
# Known findings (committed file, never written at run time)


class KnownFindings:
    def __init__(self, path=None):
        path = path or os.path.join(VERIF_DIR, "known_findings.json")
        self.entries = []
        if os.path.exists(path):
            with open(path) as f:
                data = json.load(f)
            self.entries = data.get("findings", [])

    def open_for(self, prop):
        return [e for e in self.entries if e["property"] == prop and e.get("status") == "open"]

    @staticmethod
    def entry_matches(entry, sig):
        """Every key of entry['match'] must be present in sig and match (regex fullmatch)."""
        for k, pat in entry["match"].items():
            v = sig.get(k)
            if v is None:
                return False
            if not re.fullmatch(pat, str(v)):
                return False
        return True

    def match(self, prop, sig):
        for e in self.open_for(prop):
            if self.entry_matches(e, sig):
                return e
        return None
