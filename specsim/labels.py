"""
Labels ("via") that tie a violation to the footprint of one specific known defect.
They are deliberately narrow: every condition must hold, otherwise the violation
stays unlabelled and is reported.
"""

from .grammar import COLL_KINDS
from .history import method_kind

SHELL_TYPES = ("list", "dict", "set", "KeyedList", "KeyedSet")


def _resolve(ref, snap):
    """Replace ['N', idx] references by the referenced object's id (index-independent)."""
    if isinstance(ref, list):
        if len(ref) == 2 and ref[0] == "N" and isinstance(ref[1], int):
            return ["N", snap.desc[ref[1]][0]]
        return [_resolve(x, snap) for x in ref]
    return ref


def changed_nodes(before, after):
    """[(type name, before desc, after desc)] for nodes present in both snapshots whose content differs."""
    b = {d[0]: d for d in before.desc}
    out = []
    for d in after.desc:
        o = b.get(d[0])
        if o is not None and _resolve(o[2], before) != _resolve(d[2], after):
            out.append((d[1], o, d))
    return out


def whole_value_collection_attrs(world, op):
    """Names of collection attributes that receive a whole value through this op."""
    k = op["op"]
    try:
        if k == "new":
            info = world.info(op["cls"])
            return [n for n in op.get("kw", {}) if n in info and info[n]["kind"] in COLL_KINDS], info
        tgt = world.resolve(op["on"])
        role = world.role_of(tgt)
        if role not in ("host", "sub"):
            return [], {}
        info = world.info(role)
        if k == "set":
            a = op["a"]
            return ([a] if a in info and info[a]["kind"] in COLL_KINDS else []), info
        if k == "call":
            mk = method_kind(world, op)
            if not mk:
                return [], info
            fam, verb, aname, akind = mk
            if fam == "scalar" and verb in ("with", "update", "transform") and akind in COLL_KINDS:
                return [aname], info
            if fam == "toplevel" and verb in ("update", "transform"):
                return [n for n in op.get("kw", {}) if n in info and info[n]["kind"] in COLL_KINDS], info
    except Exception:
        pass
    return [], {}


def collection_normalised_in_place(world, op, out, before, after):
    """
    Footprint of: CollectionAttrMutator.prepare normalises *in place* whatever collection object
    reaches a whole-value route (caller's argument for with_/update_/update()/setattr/constructor of
    a subclass; the receiver's own collection for transform_/update_ whose function returns its
    input).  All three must hold:
      (1) only container shells (list/dict/set/KeyedList/KeyedSet) changed -- a change inside an
          element (spec instance, Box) never qualifies;
      (2) the op is a whole-value route of a collection attribute;
      (3) the injected fault fired inside that pass (`_prepare_items` on the stack), or the pass is
          observable without a fault there: non-identity item preparer, or a keyed container
          (re-adding items reorders the set / the key index).
    """
    names, info = whole_value_collection_attrs(world, op)
    if not names:
        return False
    ch = changed_nodes(before, after)
    if not ch or any(t not in SHELL_TYPES for t, _, _ in ch):
        return False
    if any(t == "list" and len(o[2][1]) != len(d[2][1]) for t, o, d in ch):
        # the pass rewrites the items of a sequence in position: it never loses or adds one (a sequence that comes back
        # shorter is something else)
        return False
    if out.fired and "_prepare_items" in out.fired[3]:
        return True
    return any(info[n].get("prepare_item") not in (None, "ident") or info[n]["kind"] in ("kset", "klist")
               for n in names)
