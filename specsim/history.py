"""
History engine: a seeded workload of operations against a generated spec-class
world, with fault plans placed inside operations.  Property checks subclass
`HistoryCheck` and implement `step`.
"""

from .core import digest
from .grammar import gen_class_spec
from .harness import Check
from .snap import abs_instance
from .world import OpGen, SkipOp, World


def method_kind(world, op):
    """Classify a helper call: -> (family, verb, attr name, attr kind) or None."""
    if op["op"] != "call":
        return None
    m = op["m"]
    if m in ("update", "transform", "reset"):
        return ("toplevel", m, None, None)
    verb, _, rest = m.partition("_")
    for role in ("host", "sub"):
        if role not in world.built.attr_info:
            continue
        info = world.info(role)
        if rest in info and verb in ("with", "update", "transform", "reset"):
            return ("scalar", verb, rest, info[rest]["kind"])
        for name, a in info.items():
            if a.get("item_name") == rest and verb in ("with", "update", "transform", "without"):
                return ("element", verb, name, a["kind"])
    return None


def is_inplace(op):
    return bool(op.get("kw", {}).get("_inplace"))


def state_digest(world):
    return digest([[k, abs_instance(v)] for k, v in world.insts.items()])


class HistoryCheck(Check):
    PROFILE = {}
    OPGEN = {}
    N_OPS = {"quick": (6, 18), "thorough": (8, 30)}

    def make_world(self, ctx, spec):
        return World(spec)

    def begin(self, ctx, world):
        pass

    def finish(self, ctx, world):
        pass

    def next_op(self, ctx, world, gen):
        return gen.gen()

    def step(self, ctx, world, op, idx):
        prep, out = world.execute(op)
        ctx.log(op["id"], out.summary(), state_digest(world))
        return out

    def gen_spec(self, ctx):
        return gen_class_spec(ctx.src, self.PROFILE)

    def drive(self, ctx):
        if ctx.replay:
            spec = ctx.case_in["spec"]
            ops_in = ctx.case_in["ops"]
            n = len(ops_in)
        else:
            spec = self.gen_spec(ctx)
            lo, hi = self.N_OPS[ctx.tier]
            n = ctx.src.randint(lo, hi)
            ops_in = None
        ctx.case["spec"] = spec
        ctx.case["ops"] = []
        world = self.make_world(ctx, spec)
        ctx.world = world
        gen = None if ctx.replay else OpGen(ctx.src, world, self.OPGEN)
        self.begin(ctx, world)
        for idx in range(n):
            if ctx.replay:
                op = ops_in[idx]
                world.next_id = max(world.next_id, op.get("id", 0))
            else:
                op = self.next_op(ctx, world, gen)
            try:
                self.step(ctx, world, op, idx)
            except SkipOp:
                ctx.bump("skipped_ops")
                continue
            ctx.case["ops"].append(op)
        self.finish(ctx, world)
