"""
Deterministic thread scheduler (S1).

Real `threading.Thread`s run one at a time under a baton.  Pre-emption points are
`line` (optionally `opcode`) trace events in library frames.  `SimRLock` replaces
`threading.RLock` as seen by the two library modules that use it; blocking on a
held lock passes the baton.  Every switch is recorded as [step, from, to, reason];
a recorded list replays the same execution without a PRNG.
"""

import sys
import threading

from .faults import is_lib_code, short_site


class SimDeadlock(BaseException):
    pass


class SimStepCap(BaseException):
    pass


class SimRLock:
    """Cooperative re-entrant lock.  Created through `Sched.make_lock` (patched in for RLock)."""

    def __init__(self, sched, name):
        self.sched = sched
        self.name = name
        self.owner = None
        self.count = 0

    def acquire(self, blocking=True, timeout=-1):
        s = self.sched
        me = s.current()
        if me is None:  # not under simulation (e.g. harness thread): behave like an uncontended lock
            self.count += 1
            return True
        s.sync_point(me, "acquire")  # a scheduling point of its own: between whatever preceded and taking the lock
        while True:
            if self.owner is None or self.owner is me:
                self.owner = me
                self.count += 1
                return True
            if not blocking:
                return False
            s.block(me, self)

    def release(self):
        me = self.sched.current()
        if self.sched.current() is not None and self.owner is not me:
            raise RuntimeError("cannot release un-acquired lock")
        self.count -= 1
        if self.count == 0:
            self.owner = None
            self.sched.unblock(self)
            if me is not None:
                self.sched.sync_point(me, "release")  # right after the critical section

    __enter__ = acquire

    def __exit__(self, *a):
        self.release()


class SimThread:
    def __init__(self, idx, fn):
        self.idx = idx
        self.fn = fn
        self.go = threading.Semaphore(0)
        self.done = False
        self.blocked_on = None
        self.result = None
        self.exc = None
        self.thread = None
        self.steps = 0


class Sched:
    """
    policy (generation): dict with
        shape: "bounded" | "pct" | "random"
        preempt_steps: sorted list of global step numbers at which to pre-empt   (bounded)
        p: switch probability                                                  (random)
        prio / change_steps                                                    (pct)
      plus `rng` (random.Random) for tie-breaks.
    recorded (replay): list of [step, from, to, reason]
    """

    def __init__(self, policy=None, recorded=None, step_cap=200000, opcode_funcs=(), site_filter=None):
        self.policy = policy or {"shape": "bounded", "preempt_steps": []}
        self.rng = self.policy.get("rng")
        self.replaying = recorded is not None
        self.recorded = {}
        if recorded:
            for sw in recorded:
                self.recorded.setdefault(sw[0], []).append(list(sw))
        self.threads = []
        self.cur = None
        self.step = 0
        self.switches = []
        self.step_cap = step_cap
        self.all_done = threading.Event()
        self.deadlock = False
        self.capped = False
        self.locks = []
        self.opcode_funcs = set(opcode_funcs)
        self.site_filter = site_filter
        self.sites_at_switch = []
        self.trace_sites = None  # optional: list to collect (thread, site) per step (for coverage measures)
        self._site_shape = (not self.replaying) and self.policy.get("shape") == "site"
        self._visits = {}
        self._at_target = False
        self._at_sync = False
        self._ident_map = {}

    # -- construction -----------------------------------------------------------
    def make_lock(self, *a, **k):
        lk = SimRLock(self, f"L{len(self.locks)}")
        self.locks.append(lk)
        return lk

    def add(self, fn):
        t = SimThread(len(self.threads), fn)
        self.threads.append(t)
        return t

    def current(self):
        return self._ident_map.get(threading.get_ident())

    # -- running ------------------------------------------------------------------
    def run(self, first=0, timeout=120):
        for t in self.threads:
            t.thread = threading.Thread(target=self._body, args=(t,), name=f"T{t.idx}", daemon=True)
        for t in self.threads:
            t.thread.start()
        self.cur = self.threads[first]
        self.cur.go.release()
        ok = self.all_done.wait(timeout)
        if not ok:
            self.capped = True
            # wake everybody so that they abort at their next point
            for t in self.threads:
                t.go.release()
        for t in self.threads:
            t.thread.join(5)
        return ok

    def _body(self, t):
        self._ident_map[threading.get_ident()] = t
        t.go.acquire()
        try:
            if self.deadlock or self.capped:
                raise SimDeadlock()
            sys.settrace(self._global_trace)
            try:
                t.result = t.fn()
            finally:
                sys.settrace(None)
        except (SimDeadlock, SimStepCap) as e:
            t.exc = e
        except BaseException as e:  # noqa: BLE001 - outcome of the simulated thread
            t.exc = e
        finally:
            t.done = True
            self._ident_map.pop(threading.get_ident(), None)
            self._on_exit(t)

    # -- tracing --------------------------------------------------------------------
    def _global_trace(self, frame, event, arg):
        if event == "call" and is_lib_code(frame.f_code):
            if frame.f_code.co_name in self.opcode_funcs:
                frame.f_trace_opcodes = True
            return self._local_trace
        return None

    def _local_trace(self, frame, event, arg):
        if event == "line" or event == "opcode":
            self.point(frame)
        return self._local_trace

    # -- scheduling -----------------------------------------------------------------
    def runnable(self, exclude=None):
        return [t for t in self.threads if not t.done and t.blocked_on is None and t is not exclude]

    def point(self, frame):
        eligible = self.site_filter is None or bool(self.site_filter(frame))
        self._step(self.cur, lambda: short_site(frame.f_code, frame.f_lineno), eligible, False)

    def sync_point(self, me, kind):
        """Lock acquisition / release by a simulated thread: a step of its own (recorded and replayed like a line)."""
        if me is None or me.done or me is not self.cur or self.deadlock or self.capped:
            return

        def site():
            f = sys._getframe(3)
            while f is not None and not is_lib_code(f.f_code):
                f = f.f_back
            return f"sync:{kind}@" + (short_site(f.f_code, f.f_lineno) if f is not None else "?")
        self._step(me, site, True, True)

    def _step(self, me, site_fn, eligible, is_sync):
        self.step += 1
        me.steps += 1
        self._at_sync = is_sync
        if self.trace_sites is not None:
            self.trace_sites.append((me.idx, site_fn()))
        if self._site_shape:
            # "thread t at its n-th visit of this line": stays meaningful however the other threads interleave
            key = (me.idx, site_fn())
            n = self._visits[key] = self._visits.get(key, 0) + 1
            tg = self.policy["targets"]
            self._at_target = (key[0], key[1], n) in tg or (None, key[1], n) in tg
        if self.step > self.step_cap:
            self.capped = True
        if self.capped or self.deadlock:
            raise SimStepCap() if self.capped else SimDeadlock()
        target = self._decide_preempt(me, eligible)
        if target is not None and target is not me:
            self.sites_at_switch.append(site_fn())
            self._switch(me, target, "preempt")

    def _decide_preempt(self, me, eligible):
        if self.replaying:
            sw = self._take_recorded(me, "preempt")
            if sw:
                cands = self.runnable(exclude=me)
                for t in cands:
                    if t.idx == sw[2]:
                        return t
            return None
        if not eligible:
            return None
        pol = self.policy
        shape = pol.get("shape")
        cands = self.runnable(exclude=me)
        if not cands:
            return None
        if shape == "bounded":
            if self.step in pol["preempt_set"]:
                return cands[self.rng.randrange(len(cands))]
            return None
        if shape == "sync":
            # CHESS-style: pre-empt only around lock operations (before an acquisition, right after a release)
            if self._at_sync and self.rng.random() < pol["p"]:
                return cands[self.rng.randrange(len(cands))]
            return None
        if shape == "site":
            if self._at_target:
                return cands[self.rng.randrange(len(cands))]
            return None
        if shape == "random":
            if self.rng.random() < pol["p"]:
                return cands[self.rng.randrange(len(cands))]
            return None
        if shape == "pct":
            prio = pol["prio"]
            if self.step in pol["change_set"]:
                prio[me.idx] = min(prio.values()) - 1
            best = max(cands + [me], key=lambda t: prio[t.idx])
            return best if best is not me else None
        return None

    def _take_recorded(self, me, reason):
        """Consume the first unused recorded switch of this step made by `me` for `reason`."""
        lst = self.recorded.get(self.step)
        if not lst:
            return None
        for i, sw in enumerate(lst):
            if sw[1] == me.idx and sw[3] == reason:
                return lst.pop(i)
        return None

    def _pick_forced(self, me, reason):
        cands = self.runnable(exclude=me)
        if not cands:
            return None
        if self.replaying:
            sw = self._take_recorded(me, reason)
            if sw:
                for t in cands:
                    if t.idx == sw[2]:
                        return t
            return cands[0]
        if self.policy.get("shape") == "pct":
            prio = self.policy["prio"]
            return max(cands, key=lambda t: prio[t.idx])
        if self.rng is not None:
            return cands[self.rng.randrange(len(cands))]
        return cands[0]

    def _switch(self, me, target, reason):
        self.switches.append([self.step, me.idx, target.idx, reason])
        self.cur = target
        target.go.release()
        if not me.done:
            me.go.acquire()
            if self.deadlock:
                raise SimDeadlock()
            if self.capped:
                raise SimStepCap()

    def block(self, me, lock):
        me.blocked_on = lock
        target = self._pick_forced(me, "block")
        if target is None:
            # nobody can run: deadlock
            self.deadlock = True
            me.blocked_on = None
            for t in self.threads:
                if t is not me and not t.done:
                    t.blocked_on = None
                    t.go.release()
            raise SimDeadlock()
        self._switch(me, target, "block")
        me.blocked_on = None

    def unblock(self, lock):
        for t in self.threads:
            if t.blocked_on is lock:
                t.blocked_on = None

    def _on_exit(self, me):
        if self.deadlock or self.capped:
            if all(t.done for t in self.threads):
                self.all_done.set()
            return
        target = self._pick_forced(me, "exit")
        if target is None:
            if all(t.done for t in self.threads):
                self.all_done.set()
            else:
                # remaining threads are all blocked: deadlock
                self.deadlock = True
                for t in self.threads:
                    if not t.done:
                        t.blocked_on = None
                        t.go.release()
            return
        self.switches.append([self.step, me.idx, target.idx, "exit"])
        self.cur = target
        target.go.release()


ANCHOR_PREFIXES = ("utils/mutation.py:__new__", "utils/mutation.py:__enter__", "utils/mutation.py:__exit__",
                   "utils/mutation.py:protect_via_deepcopy", "spec_class.py:", "methods/base.py:__get__")
# the mechanisms the two thread properties are anchored in: each gets an equal share of the mechanism-directed targets,
# however few line events it contributes to a trace
MECHANISMS = ("utils/mutation.py:__new__", "utils/mutation.py:__enter__", "utils/mutation.py:__exit__",
              "utils/mutation.py:protect_via_deepcopy", "spec_class.py:__get__", "spec_class.py:__new__",
              "spec_class.py:bootstrapper", "spec_class.py:bootstrap", "spec_class.py:build_attr_spec",
              "spec_class.py:for_class", "spec_class.py:register_method", "spec_class.py:invalidation_map",
              "methods/base.py:__get__")


def make_policy(rng, shape, seq_steps, hot_steps=None, n_threads=2, focus=None):
    """
    Draw a schedule policy.  seq_steps: estimated number of steps of the whole run;
    hot_steps: optional list of step indices (in the sequential trace) inside anchored functions.
    """
    if shape == "bounded":
        d = rng.choice([0, 1, 1, 2, 2, 2, 3])
        steps = set()
        for _ in range(d):
            if hot_steps and rng.random() < 0.5:
                steps.add(rng.choice(hot_steps))
            else:
                steps.add(rng.randint(1, max(1, seq_steps)))
        return {"shape": "bounded", "preempt_set": steps, "d": d, "rng": rng}
    if shape == "site":
        # hot_steps / trace: the sequential trace [(thread, site), ...]; targets are (thread, site, n-th visit by that thread)
        trace = hot_steps or []
        d = rng.choice([1, 2, 2, 3, 3, 4])
        visits, entries = {}, []
        for t, site in trace:
            visits[(t, site)] = visits.get((t, site), 0) + 1
            entries.append((t, site, visits[(t, site)]))
        anchored = [e for e in entries if e[1].startswith(ANCHOR_PREFIXES)]
        syncs = [e for e in entries if e[1].startswith("sync:")]
        targets = set()
        # rarely visited anchored lines (a two-line window in a descriptor's __get__, say) drown among the hundreds of
        # bootstrap lines when entries are drawn uniformly: half of the anchored picks draw a distinct LINE uniformly
        first_visits = sorted({(t, site) for t, site, n in anchored if n == 1})
        by_mech = {}
        for e in entries:
            for m in MECHANISMS:
                if e[1].startswith(m + ":") or e[1] == m:
                    by_mech.setdefault(m, []).append(e)
                    break
        mechs = sorted(by_mech)
        for _ in range(d):
            if focus and focus in by_mech and rng.random() < 0.6:
                # the run was set up around one mechanism (focus): most targets land in it
                pool = by_mech[focus]
                t, site, n = pool[rng.randrange(len(pool))]
                targets.add((None if rng.random() < 0.5 else t, site, n))
                continue
            if mechs and rng.random() < 0.35:
                pool = by_mech[mechs[rng.randrange(len(mechs))]]
                lines = sorted({site for _t, site, _n in pool})
                site = lines[rng.randrange(len(lines))]
                cands = [e for e in pool if e[1] == site]
                t, site, n = cands[rng.randrange(len(cands))]
                targets.add((None if rng.random() < 0.5 else t, site, n))
                continue
            u = rng.random()
            pool = syncs if (syncs and u < 0.45) else (anchored if (anchored and u < 0.75) else entries)
            if pool is anchored and first_visits and rng.random() < 0.5:
                t, site = first_visits[rng.randrange(len(first_visits))]
                n = 1
                targets.add((None if rng.random() < 0.5 else t, site, n))
                continue
            if pool:
                t, site, n = pool[rng.randrange(len(pool))]
                # any thread: a thread that ran second in the sequential trace may never have reached this line there
                targets.add((None if rng.random() < 0.5 else t, site, n))
        return {"shape": "site", "targets": targets, "d": d, "rng": rng}
    if shape == "sync":
        return {"shape": "sync", "p": rng.choice([0.15, 0.3, 0.5]), "rng": rng}
    if shape == "random":
        p = rng.choice([0.002, 0.02, 0.2])
        return {"shape": "random", "p": p, "rng": rng}
    if shape == "pct":
        d = rng.choice([1, 2, 3])
        prio = {i: rng.random() for i in range(n_threads)}
        change = set(rng.randint(1, max(1, seq_steps)) for _ in range(d))
        return {"shape": "pct", "prio": prio, "change_set": change, "d": d, "rng": rng}
    raise ValueError(shape)


def policy_to_json(pol):
    out = {k: v for k, v in pol.items() if k != "rng"}
    for k in ("preempt_set", "change_set"):
        if k in out:
            out[k] = sorted(out[k])
    if "targets" in out:
        out["targets"] = sorted((list(t) for t in out["targets"]), key=repr)
    if "prio" in out:
        out["prio"] = {str(k): v for k, v in out["prio"].items()}
    return out
