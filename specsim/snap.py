"""
Observation: identity snapshots and abstract states.

Snapshots read `__dict__` directly and never call the library's repr / == /
getattr, so observing cannot fill caches, trigger bootstrap or depend on the code
under test.
"""

import types

from .core import strip_addr

_IMMUTABLE_LEAF = (int, float, complex, str, bytes, bool, type(None), type, types.ModuleType,
                   types.FunctionType, types.BuiltinFunctionType, types.MethodType, range)


class Cancelled(BaseException):
    """A cancellation-style signal raised by user code (not an Exception subclass, like KeyboardInterrupt)."""


class Bomb:
    """A user value whose copy fails once it is armed (copies of an unarmed one are unarmed)."""

    def __init__(self, armed=False, signal=False):
        self.armed = armed
        self.signal = signal

    def __deepcopy__(self, memo):
        if self.armed:
            if self.signal:
                raise Cancelled("bomb: the copy was cancelled")
            raise ValueError("bomb: this value refuses to be copied")
        return Bomb(False, self.signal)

    def __eq__(self, other):
        return isinstance(other, Bomb)

    def __hash__(self):
        return hash("Bomb")

    def __repr__(self):
        return f"Bomb(armed={self.armed})"


class Catcher:
    """A user container that recovers from a failing copy of what it holds (falls back to an empty one)."""

    def __init__(self, inner=None):
        self.inner = inner

    def __deepcopy__(self, memo):
        import copy as _copy

        try:
            return Catcher(_copy.deepcopy(self.inner, memo))
        except (ValueError, Cancelled):
            return Catcher(None)

    def __eq__(self, other):
        return isinstance(other, Catcher)

    def __hash__(self):
        return hash("Catcher")

    def __repr__(self):
        return "Catcher(..)"


class Returner:
    """A user transform that hands back an object that already exists (a caller-owned instance, or another value of
    the receiver) whatever it is given.  Snapshots walk into `obj`: it is an argument object like any other."""

    def __init__(self, obj):
        self.obj = obj

    def __call__(self, _value):
        return self.obj

    def __repr__(self):
        return "Returner(..)"


class Box:
    """A deliberately mutable user value (not a spec class)."""

    def __init__(self, v):
        self.v = v

    def __eq__(self, other):
        return isinstance(other, Box) and self.v == other.v

    def __hash__(self):
        return hash(("Box", type(self.v).__name__))

    def __repr__(self):
        return f"Box({self.v!r})"


def is_spec_instance(x):
    return not isinstance(x, type) and hasattr(type(x), "__spec_class__") and hasattr(x, "__dict__")


def _keyed_kind(x):
    n = type(x).__name__
    if n in ("KeyedList", "KeyedSet") and type(x).__module__.startswith("spec_classes"):
        return n
    return None


def leaf_repr(x):
    if isinstance(x, bool) or x is None or isinstance(x, (int, str, bytes)):
        return [type(x).__name__, x if not isinstance(x, bytes) else x.hex()]
    if isinstance(x, float):
        return ["float", repr(x)]
    if isinstance(x, type):
        return ["type", x.__name__]
    if isinstance(x, types.ModuleType):
        return ["module", x.__name__]
    if isinstance(x, types.MethodType):
        return ["method", getattr(x.__func__, "__name__", "?"), type(x.__self__).__name__,
                str(getattr(x.__self__, "tag", ""))]  # (no id(): digests must not depend on addresses)
    if isinstance(x, (types.FunctionType, types.BuiltinFunctionType)):
        return ["function", getattr(x, "__qualname__", "?")]
    return ["opaque", type(x).__name__, strip_addr(repr(x))]


class Snapshot:
    """
    A walk from `roots` through spec instances (`__dict__`), list/tuple/dict/set,
    KeyedList/KeyedSet and Box objects.  Each reachable mutable node gets an index;
    we record (id, type name, content with children by index) and keep a strong
    reference to every node so ids cannot be reused while the snapshot lives.
    """

    def __init__(self, roots, frozen_as_leaf=False, ignore_attrs=()):
        self.ignore_attrs = set(ignore_attrs)
        self.nodes = []  # strong refs
        self.index = {}  # id -> idx
        self.desc = []  # per node: [id, typename, content]
        self.frozen_as_leaf = frozen_as_leaf
        self.roots = [self._visit(r) for r in roots]

    def _visit(self, x):
        if isinstance(x, _IMMUTABLE_LEAF):
            return ["L", leaf_repr(x)]
        if isinstance(x, tuple):
            return ["T", [self._visit(e) for e in x]]
        if isinstance(x, frozenset):
            return ["F", sorted((self._visit(e) for e in x), key=repr)]
        if isinstance(x, type(NotImplemented)) or getattr(type(x), "__name__", "") == "_MissingType":
            return ["L", ["sentinel", repr(x)]]
        oid = id(x)
        if oid in self.index:
            return ["N", self.index[oid]]
        idx = len(self.nodes)
        self.index[oid] = idx
        self.nodes.append(x)
        self.desc.append(None)
        kk = _keyed_kind(x)
        if isinstance(x, list):
            content = ["list", [self._visit(e) for e in x]]
        elif isinstance(x, dict):
            content = ["dict", [[self._visit(k), self._visit(v)] for k, v in x.items()]]
        elif isinstance(x, set):
            content = ["set", sorted((self._visit(e) for e in x), key=repr)]
        elif kk == "KeyedList":
            d = x.__dict__
            content = ["KeyedList", self._visit(d.get("_list")), self._visit(d.get("_dict"))]
        elif kk == "KeyedSet":
            d = x.__dict__
            content = ["KeyedSet", self._visit(d.get("_dict")), bool(d.get("enforce_item_equivalence"))]
        elif isinstance(x, Box):
            content = ["Box", self._visit(x.v)]
        elif isinstance(x, Returner):
            content = ["Returner", self._visit(x.obj)]
        elif is_spec_instance(x):
            content = ["spec", type(x).__name__,
                       [[k, self._visit(v)] for k, v in x.__dict__.items() if k not in self.ignore_attrs]]
        elif hasattr(x, "__dict__") and not callable(x):
            content = ["obj", type(x).__name__,
                       [[k, self._visit(v)] for k, v in sorted(x.__dict__.items())]]
        else:
            content = ["opaque", type(x).__name__, strip_addr(repr(x))]
        self.desc[idx] = [oid, type(x).__name__, content]
        return ["N", idx]

    def same(self, other):
        return self.roots == other.roots and self.desc == other.desc

    def diff(self, other, limit=3):
        """Human-readable first differences (no ids)."""
        out = []
        if self.roots != other.roots:
            out.append(f"roots differ: {self.roots!r} vs {other.roots!r}"[:300])
        n = max(len(self.desc), len(other.desc))
        for i in range(n):
            a = self.desc[i] if i < len(self.desc) else None
            b = other.desc[i] if i < len(other.desc) else None
            if a != b:
                if a is not None and b is not None and a[0] != b[0]:
                    out.append(f"node#{i}: identity changed ({a[1]} -> {b[1]})")
                else:
                    out.append(strip_addr(f"node#{i}: {a[2] if a else None!r} -> {b[2] if b else None!r}")[:400])
                if len(out) >= limit:
                    break
        return out

    def mutable_ids(self):
        return {d[0] for d in self.desc}


def mutable_nodes(roots):
    """id -> object for every mutable node reachable from roots."""
    s = Snapshot(roots)
    return {id(n): n for n in s.nodes}


# ----------------------------------------------------------------------------
# Abstract state (independent of ids)

MISSING_TOKEN = "<MISSING>"


def abs_value(x, _depth=0):
    if _depth > 12:
        return "<deep>"
    if isinstance(x, bool) or x is None or isinstance(x, (int, str)):
        return x
    if isinstance(x, float):
        return ["float", repr(x)]
    if isinstance(x, bytes):
        return ["bytes", x.hex()]
    if getattr(type(x), "__name__", "") == "_MissingType":
        return f"<{x.__name__}>"
    if isinstance(x, tuple):
        return ["tuple", [abs_value(e, _depth + 1) for e in x]]
    if isinstance(x, list):
        return ["list", [abs_value(e, _depth + 1) for e in x]]
    if isinstance(x, dict):
        return ["dict", [[abs_value(k, _depth + 1), abs_value(v, _depth + 1)] for k, v in x.items()]]
    if isinstance(x, (set, frozenset)):
        return ["set", sorted((abs_value(e, _depth + 1) for e in x), key=repr)]
    kk = _keyed_kind(x)
    if kk == "KeyedList":
        return ["KeyedList", [abs_value(e, _depth + 1) for e in x.__dict__.get("_list", [])]]
    if kk == "KeyedSet":
        # a set: iteration order is not part of its abstract value
        return ["KeyedSet", sorted(([abs_value(k, _depth + 1), abs_value(v, _depth + 1)]
                                    for k, v in x.__dict__.get("_dict", {}).items()), key=repr)]
    if isinstance(x, Box):
        return ["Box", abs_value(x.v, _depth + 1)]
    if is_spec_instance(x):
        return abs_instance(x, _depth + 1)
    return leaf_repr(x)


def abs_instance(x, _depth=0, names=None):
    """Abstract state of a spec instance: __dict__ entries (all, incl. caches/overrides)."""
    d = x.__dict__
    keys = list(d.keys()) if names is None else [k for k in names if k in d]
    return {"__cls__": type(x).__name__, "attrs": {k: abs_value(d[k], _depth + 1) for k in sorted(keys)}}
