"""
Executable reference models written from the documentation (docsite/docs/usage/**).
They share no code with the library.  Values are real Python objects for scalars and
plain containers; spec elements (Leaf / KItem) are modelled by their attribute dicts.

ElementModel  -- with_/update_/transform_/without_<item> on list / dict / set /
                 KeyedList / KeyedSet attributes (C06)
HostModel     -- scalar and top-level helpers, defaults, preparers, invalidation (C05)
"""

from .grammar import FAMILY, ITEM_KIND, ITEM_PREPARERS, PREPARERS, FUNCS

LEAF_DEFAULTS = {"p": 1, "notes": []}
KITEM_DEFAULTS = {"v": 0}


class Unmodelled(Exception):
    """The documentation does not determine the outcome (or the model does not cover the form)."""


class Raises(Exception):
    def __init__(self, *classes):
        self.classes = classes


# ---------------------------------------------------------------------------------------------
# spec elements as attribute dicts


def spec_attrs(obj):
    """Attribute dict of a real Leaf / KItem instance (managed attrs only)."""
    return {k: v for k, v in obj.__dict__.items() if not k.startswith("__")}


def elem_kind_of(x):
    n = type(x).__name__
    if n == "Leaf":
        return "leaf"
    if n == "KItem":
        return "kitem"
    return None


def conforms_item(x, item_kind):
    if item_kind == "int":
        return isinstance(x, int) and not isinstance(x, bool)
    if item_kind == "optint":
        return x is None or (isinstance(x, int) and not isinstance(x, bool))
    if item_kind == "str":
        return isinstance(x, str)
    return elem_kind_of(x) == item_kind


def new_spec_attrs(item_kind, kw):
    base = dict(LEAF_DEFAULTS if item_kind == "leaf" else KITEM_DEFAULTS)
    base = {k: (list(v) if isinstance(v, list) else v) for k, v in base.items()}
    base.update(kw)
    if item_kind == "kitem" and "k" not in base:
        raise Raises(TypeError)
    return base


def attrs_type_ok(item_kind, attrs):
    for k, v in attrs.items():
        if k in ("p", "v") and not (isinstance(v, int) and not isinstance(v, bool)):
            return False
        if k in ("q", "k") and not isinstance(v, str):
            return False
        if k == "notes" and not (isinstance(v, list) and all(isinstance(e, str) for e in v)):
            return False
        if k not in ("p", "q", "notes", "k", "v"):
            return False
    return True


MODEL_FNS_SPEC = {
    "ident": lambda a: a,
    "leaf_bump": lambda a: {**a, "p": a.get("p", 0) + 1},
    "leaf_q": lambda a: {**a, "q": "t"},
    "kitem_bump": lambda a: {**a, "v": a.get("v", 0) + 1},
    "kitem_rekey": lambda a: {**a, "k": a["k"] + "x"},
    "kitem_rekey_a": lambda a: {**a, "k": "a"},
}


class Elem:
    """Model of one element: either a plain value or a spec element (kind + attrs).  `src` is the real
    object it stands for when the element is carried over unchanged (identity can then be checked)."""

    __slots__ = ("kind", "value", "attrs", "src")

    def __init__(self, kind, value=None, attrs=None, src=None):
        self.kind, self.value, self.attrs, self.src = kind, value, attrs, src

    @staticmethod
    def of(real):
        k = elem_kind_of(real)
        if k:
            return Elem(k, attrs=spec_attrs(real), src=real)
        return Elem("plain", value=real, src=real)

    def key(self):
        if self.kind == "kitem":
            return self.attrs.get("k")
        return self.value

    def abs(self):
        from .snap import abs_value

        if self.kind == "plain":
            return abs_value(self.value)
        cls = "Leaf" if self.kind == "leaf" else "KItem"
        return {"__cls__": cls, "attrs": {k: abs_value(v) for k, v in sorted(self.attrs.items())}}

    def equals_real(self, real):
        from .snap import abs_value

        return self.abs() == abs_value(real)


def apply_item_preparer(name, v):
    if not name:
        return v
    return ITEM_PREPARERS[name](None, v)


class ElementModel:
    """
    Model of one element-helper call.  `cur` is the real current container (or None when the
    attribute is missing); `info` the harness metadata of the attribute.
    """

    def __init__(self, info, world_build):
        self.info = info
        self.kind = info["kind"]
        self.family = FAMILY[self.kind]
        self.item_kind = ITEM_KIND[self.kind]
        self.keyed = self.kind in ("klist", "kset")
        self.build = world_build
        self.prep_item = info.get("prepare_item")

    # -- helpers ---------------------------------------------------------------------------
    def elems(self, cur):
        if cur is None:
            return [] if self.family != "map" else {}
        if self.family == "seq":
            seq = cur.__dict__["_list"] if type(cur).__name__ == "KeyedList" else cur
            return [Elem.of(x) for x in seq]
        if self.family == "map":
            return {k: Elem.of(v) for k, v in cur.items()}
        if type(cur).__name__ == "KeyedSet":
            return [Elem.of(x) for x in cur.__dict__["_dict"].values()]
        return [Elem.of(x) for x in sorted(cur, key=repr)]

    def new_item(self, arg, kw, old=None, replace=True):
        """
        Documented value pipeline for one element: explicit new value (prepared by the item preparer, a bare key
        promoted to a keyed element), else the old element (update) or a freshly constructed one; then keywords.
        """
        ik = self.item_kind
        if arg is not _NOARG:
            v = apply_item_preparer(self.prep_item, arg)
            if ik == "kitem" and isinstance(v, str):
                e = Elem("kitem", attrs=new_spec_attrs("kitem", {"k": v}))
            elif ik in ("leaf", "kitem") and isinstance(v, dict):
                if not attrs_type_ok(ik, {**v, **kw}):
                    raise Raises(TypeError, ValueError)
                return Elem(ik, attrs=new_spec_attrs(ik, {**v, **kw}))
            else:
                e = Elem.of(v)
                e.src = None  # a new element: no identity expectation
        elif old is not None and not replace:
            e = Elem(old.kind, old.value, dict(old.attrs) if old.attrs is not None else None, src=None)
        else:
            if ik in ("int", "optint"):
                raise Unmodelled("element built from nothing")
            if not attrs_type_ok(ik, kw):
                raise Raises(TypeError, ValueError)
            return Elem(ik, attrs=new_spec_attrs(ik, kw))
        if kw:
            if e.kind == "plain":
                raise Unmodelled("keywords on a plain element")
            if not attrs_type_ok(e.kind, kw):
                raise Raises(TypeError, ValueError)
            e = Elem(e.kind, attrs={**e.attrs, **kw})
        return e

    def check_item_type(self, e):
        ik = self.item_kind
        if ik in ("int", "optint"):
            if not (e.kind == "plain" and conforms_item(e.value, ik)):
                raise Raises(ValueError, TypeError)
        elif e.kind != ik or not attrs_type_ok(ik, e.attrs):
            raise Raises(ValueError, TypeError)

    def transform_elem(self, e, fn_name, kwfns):
        e = Elem(e.kind, e.value, e.attrs, src=None)  # the addressed element is replaced: no identity expectation
        if fn_name is not None:
            if e.kind == "plain":
                try:
                    v = FUNCS[fn_name](e.value)
                except Exception:
                    raise Unmodelled("transform raised")
                if getattr(type(v), "__name__", "") == "_MissingType":
                    raise Unmodelled("transform returned a sentinel")
                e = Elem.of(v)
                e.src = None
            else:
                if fn_name not in MODEL_FNS_SPEC:
                    raise Raises(ValueError, TypeError, AttributeError)
                e = Elem(e.kind, attrs=MODEL_FNS_SPEC[fn_name](dict(e.attrs)), src=None)
        for an, fname in kwfns.items():
            if e.kind == "plain":
                raise Unmodelled("attribute transform on a plain element")
            old = e.attrs.get(an, _MISSING)
            if old is _MISSING:
                raise Unmodelled("attribute transform of a missing attribute")
            try:
                nv = FUNCS[fname](old)
            except Exception:
                raise Unmodelled("transform raised")
            if getattr(type(nv), "__name__", "") == "_MissingType":
                continue
            e = Elem(e.kind, attrs={**e.attrs, an: nv})
        return e

    def by_index_default(self, x):
        return not conforms_item(x, self.item_kind)

    def unique_keys(self, elems, skip=None):
        if not self.keyed:
            return
        keys = [e.key() for i, e in enumerate(elems) if i != skip]
        if len(set(map(repr, keys))) != len(keys):
            raise Raises(ValueError)

    # -- the four helpers ---------------------------------------------------------------------------
    def apply(self, cur, verb, args, kw):
        """-> new model container (list of Elem / dict key->Elem).  May raise Raises / Unmodelled."""
        kw = dict(kw)
        kw.pop("_inplace", None)
        if kw.pop("_if", True) is False:
            raise Unmodelled("_if=False handled by the caller")
        # keywords outside the advertised signature are rejected before anything else happens
        valid = {"leaf": {"p", "q", "notes"}, "kitem": {"k", "v"}}.get(self.item_kind, set())
        flags = {"seq": {"with": {"_index", "_insert"}, "update": {"_by_index"}, "transform": {"_by_index"},
                         "without": {"_by_index"}}}.get(self.family, {}).get(verb, set())
        if verb == "without":
            valid = set()
        if any(k not in valid and k not in flags for k in kw):
            raise Raises(TypeError)
        fam = self.family
        if fam == "seq":
            return self.apply_seq(cur, verb, list(args), kw)
        if fam == "map":
            return self.apply_map(cur, verb, list(args), kw)
        return self.apply_set(cur, verb, list(args), kw)

    def _locate_seq(self, cur, elems, x, by_index, real_is_keyedlist):
        """-> index of the addressed element; raises Raises(IndexError/ValueError/TypeError/KeyError)."""
        if by_index is _NOARG:
            by_index = self.by_index_default(x)
        n = len(elems)
        if by_index:
            if isinstance(x, bool) or not isinstance(x, int):
                if real_is_keyedlist:
                    for i, e in enumerate(elems):
                        try:
                            if e.key() == x:
                                return i
                        except Exception:
                            pass
                    raise Raises(KeyError, IndexError, ValueError, TypeError)
                raise Raises(TypeError, IndexError)
            if not -n <= x < n:
                raise Raises(IndexError)
            return x % n if n else 0
        for i, e in enumerate(elems):
            # (list.index: Python equality -- 1 == 1.0 == True)
            if e.equals_real(x) or (e.kind == "plain" and isinstance(e.value, (int, float)) and isinstance(x, (int, float))
                                    and e.value == x):
                return i
        raise Raises(ValueError)

    def apply_seq(self, cur, verb, args, kw):
        elems = self.elems(cur)
        is_kl = self.kind == "klist"
        n = len(elems)
        if verb == "with":
            index = kw.pop("_index", _NOARG)
            insert = kw.pop("_insert", False)
            arg = args[0] if args else _NOARG
            old = None
            if insert and index is not _NOARG and (isinstance(index, bool) or not isinstance(index, int)):
                raise Unmodelled("insert at a non-integer index")  # (whichever of several complaints comes first)
            if index is not _NOARG and not insert:
                if isinstance(index, bool) or not isinstance(index, int):
                    if not is_kl:
                        raise Raises(TypeError, IndexError)
                    pos = self._locate_seq(cur, elems, index, True, is_kl)
                else:
                    if not -n <= index < n:
                        raise Raises(IndexError)
                    pos = index % n
                old = elems[pos]
            e = self.new_item(arg, kw, old=None, replace=True)
            self.check_item_type(e)
            out = list(elems)
            if index is _NOARG:
                out.append(e)
                self.unique_keys(out)
            elif insert:
                if isinstance(index, bool) or not isinstance(index, int):
                    raise Unmodelled("insert at a non-integer index")
                out.insert(index, e)
                self.unique_keys(out)
            else:
                out[pos] = e
                self.unique_keys(out)
            return out
        if verb in ("update", "transform", "without"):
            if not args:
                raise Unmodelled("no addressing argument")
            x = args[0]
            by_index = kw.pop("_by_index", _NOARG)
            pos = self._locate_seq(cur, elems, x, by_index, is_kl)
            out = list(elems)
            if verb == "without":
                del out[pos]
                return out
            if verb == "update":
                arg = args[1] if len(args) > 1 else _NOARG
                e = self.new_item(arg, kw, old=elems[pos], replace=False)
            else:
                fn = args[1] if len(args) > 1 else None
                e = self.transform_elem(elems[pos], fn, kw)
            self.check_item_type(e)
            out[pos] = e
            self.unique_keys(out)
            return out
        raise Unmodelled(verb)

    def apply_map(self, cur, verb, args, kw):
        elems = dict(self.elems(cur))
        if not args:
            raise Unmodelled("no key")
        key = args[0]
        if not isinstance(key, str):
            raise Unmodelled("key of the wrong type")  # (C03 is about that; here only documented behaviour)
        if verb == "with":
            arg = args[1] if len(args) > 1 else _NOARG
            e = self.new_item(arg, kw, old=None, replace=True)
            self.check_item_type(e)
            elems[key] = e
            return elems
        if key not in elems:
            raise Raises(KeyError)
        if verb == "without":
            del elems[key]
            return elems
        if verb == "update":
            arg = args[1] if len(args) > 1 else _NOARG
            e = self.new_item(arg, kw, old=elems[key], replace=False)
        else:
            fn = args[1] if len(args) > 1 else None
            e = self.transform_elem(elems[key], fn, kw)
        self.check_item_type(e)
        elems[key] = e
        return elems

    def _locate_set(self, elems, x):
        for i, e in enumerate(elems):
            if e.equals_real(x):
                return i
            if self.kind == "kset":
                try:
                    if e.key() == x or (elem_kind_of(x) == "kitem" and e.key() == x.__dict__.get("k")):
                        return i
                except Exception:
                    pass
        return None

    def apply_set(self, cur, verb, args, kw):
        elems = list(self.elems(cur))
        if verb == "with":
            arg = args[0] if args else _NOARG
            e = self.new_item(arg, kw, old=None, replace=True)
            self.check_item_type(e)
            return self._set_add(elems, e)
        if not args:
            raise Unmodelled("no element")
        pos = self._locate_set(elems, args[0])
        if pos is None:
            if self.kind != "kset" and isinstance(args[0], (int, float)) and any(
                    e.kind == "plain" and isinstance(e.value, (int, float)) and e.value == args[0] for e in elems):
                # addressed by an equal value of another type (1.0 for 1): a built-in set cannot hand the stored
                # member back, so what an update or transform then sees is not specified
                raise Unmodelled("member addressed by an equal value of another type")
            raise Raises(ValueError, KeyError)
        if verb == "without":
            del elems[pos]
            return elems
        old = elems[pos]
        if verb == "update":
            arg = args[1] if len(args) > 1 else _NOARG
            e = self.new_item(arg, kw, old=old, replace=False)
        else:
            fn = args[1] if len(args) > 1 else None
            e = self.transform_elem(old, fn, kw)
        self.check_item_type(e)
        del elems[pos]
        return self._set_add(elems, e)

    def _set_add(self, elems, e):
        out = []
        replaced = False
        for x in elems:
            same = (repr(x.key()) == repr(e.key())) if self.kind == "kset" else (x.abs() == e.abs())
            if same:
                if not replaced:
                    out.append(e)
                    replaced = True
            else:
                out.append(x)
        if not replaced:
            out.append(e)
        return out


_NOARG = object()
_MISSING = object()


# ---------------------------------------------------------------------------------------------
# HostModel: scalar / top-level helpers (C05)

ABSENT = "<ABSENT>"
SUPPORTED_VALUE_KINDS = ("int", "str", "float", "optint", "union", "lit", "bounded", "validated",
                         "list_int", "dict_int", "set_int", "leaf", "any",
                         "list_leaf", "dict_leaf", "list_kitem", "dict_kitem", "klist", "kset")
SPEC_COLLECTION_KINDS = ("list_leaf", "dict_leaf", "list_kitem", "dict_kitem", "klist", "kset")


def abs_for_kind(kind, value):
    """Abstract value of a whole attribute value after the documented coercion into the attribute's
    container type (a plain list / set of keyed items handed to a KeyedList / KeyedSet attribute is
    re-packed into that container)."""
    if kind == "klist" and isinstance(value, (list, tuple)):
        return ["KeyedList", [_abs(e) for e in value]]
    if kind in ("list_leaf", "list_kitem") and isinstance(value, tuple):
        return _abs(list(value))
    if kind == "kset" and isinstance(value, (list, tuple, set, frozenset)):
        items = list(value)
        return ["KeyedSet", sorted(([_abs(getattr(e, "k", None) if not isinstance(e, dict) else e.get("k")), _abs(e)]
                                    for e in items), key=repr)]
    return _abs(value)


def _abs(v):
    from .snap import abs_value

    return abs_value(v)


def leaf_abs(attrs):
    return {"__cls__": "Leaf", "attrs": {k: _abs(v) for k, v in sorted(attrs.items())}}


class HostModel:
    """
    Expected abstract state after one scalar / top-level helper call, from the documented
    semantics: with_ replaces by the prepared value (or builds the nested spec from keywords),
    update_ merges keywords into the existing nested value, transform_ stores f(old), reset_
    restores the default, update / transform / reset apply several such changes; attributes
    declared invalidated_by a changed attribute are reset (transitively).
    """

    def __init__(self, world, role):
        self.world = world
        self.role = role
        self.info = world.info(role)
        self.names = list(self.info)

    # -- building blocks ----------------------------------------------------------------------
    def prepared(self, name, value):
        """Documented preparation of a whole attribute value: attribute preparer, then item preparer per element."""
        a = self.info[name]
        kind = a["kind"]
        if kind not in SUPPORTED_VALUE_KINDS:
            raise Unmodelled(f"value model for {kind}")
        if a.get("prepare"):
            value = PREPARERS[a["prepare"]](None, value)
        ip = a.get("prepare_item")
        if kind in SPEC_COLLECTION_KINDS:
            if ip not in (None, "ident"):
                raise Unmodelled("item preparer on spec elements")
            if value is None:
                value = {} if kind.startswith("dict") else []
            want = dict if kind.startswith("dict") else (list, tuple, set, frozenset)
            if type(value).__name__ in ("KeyedList", "KeyedSet"):
                return value
            if not isinstance(value, want):
                raise Unmodelled("coercion of a foreign container")
            return value
        if kind == "list_int":
            if value is None:
                value = []
            if not isinstance(value, list):
                raise Unmodelled("coercion of a non-list")
            value = [apply_item_preparer(ip, x) for x in value]
        elif kind == "dict_int":
            if value is None:
                value = {}
            if not isinstance(value, dict):
                raise Unmodelled("coercion of a non-dict")
            value = {k: apply_item_preparer(ip, x) for k, x in value.items()}
        elif kind == "set_int":
            if value is None:
                value = set()
            if not isinstance(value, (set, frozenset)):
                raise Unmodelled("coercion of a non-set")
            value = {apply_item_preparer(ip, x) for x in value}
        return value

    def default_abs(self, name):
        a = self.info[name]
        d = a["default"]
        if d[0] == "none":
            return ABSENT
        v = self.world.build(d[1], False)
        if a["kind"] == "leaf":
            return _abs(v)
        if a["kind"] not in SUPPORTED_VALUE_KINDS:
            return _abs(v) if not (a.get("prepare") or a.get("prepare_item")) else None
        return abs_for_kind(a["kind"], self.prepared(name, v))

    def dependants(self, changed):
        """Attributes to reset after `changed` was successfully mutated (transitive, in discovery order)."""
        out = []
        frontier = list(changed)
        seen = set(changed)
        while frontier:
            c = frontier.pop(0)
            for n, a in self.info.items():
                inv = a.get("flags", {}).get("invalidated_by") or []
                if (c in inv or "*" in inv) and n not in seen and n != c:
                    seen.add(n)
                    out.append(n)
                    frontier.append(n)
        return out

    # -- leaf value pipeline --------------------------------------------------------------------
    @staticmethod
    def leaf_from(value, kw, old_attrs=None, replace=True):
        """-> attrs dict of the resulting nested Leaf (documented pipeline), or raises Unmodelled."""
        if value is not _NOARG:
            if isinstance(value, dict):
                # a dict stands for constructor arguments; keywords given next to it are applied on top of the result
                if not attrs_type_ok("leaf", {**value, **kw}):
                    raise Unmodelled("ill-typed nested keywords")
                return new_spec_attrs("leaf", {**value, **kw})
            if elem_kind_of(value) != "leaf":
                raise Unmodelled("non-leaf value")
            attrs = spec_attrs(value)
        elif old_attrs is not None and not replace:
            attrs = dict(old_attrs)
        else:
            if not attrs_type_ok("leaf", kw):
                raise Unmodelled("ill-typed nested keywords")
            return new_spec_attrs("leaf", kw)
        if not attrs_type_ok("leaf", kw):
            raise Unmodelled("ill-typed nested keywords")
        return {**attrs, **kw}

    # -- one attribute ---------------------------------------------------------------------------
    def expect_attr(self, name, verb, before_real, args, kw):
        """-> expected abs of attribute `name` (or ABSENT); args: real values, function names as str in FnName."""
        a = self.info[name]
        kind = a["kind"]
        if verb == "reset":
            d = self.default_abs(name)
            if d is None:
                raise Unmodelled("default with preparer on unsupported kind")
            return d
        if kind == "leaf":
            if self.world.spec["leaf"].get("inv"):
                # the nested class has interacting attributes: left to the metamorphic relations
                raise Unmodelled("nested class with an invalidated attribute")
            old = spec_attrs(before_real) if elem_kind_of(before_real) == "leaf" else None
            if verb == "with":
                val = args[0] if args else _NOARG
                if val is _NOARG and not kw:
                    return leaf_abs(new_spec_attrs("leaf", {}))
                return leaf_abs(self.leaf_from(val, kw, old, replace=True))
            if verb == "update":
                val = args[0] if args else _NOARG
                return leaf_abs(self.leaf_from(val, kw, old, replace=False))
            if verb == "transform":
                if old is None:
                    raise Unmodelled("transform of a missing nested value")
                e = Elem("leaf", attrs=dict(old))
                fn = args[0].name if args else None
                em = ElementModel({"kind": "list_leaf"}, None)
                e = em.transform_elem(e, fn, {k: v.name for k, v in kw.items()})
                return leaf_abs(e.attrs)
        if kind not in SUPPORTED_VALUE_KINDS:
            raise Unmodelled(f"value model for {kind}")
        if verb in ("with", "update"):
            if not args or kw:
                raise Unmodelled("form without a plain value")
            return abs_for_kind(kind, self.prepared(name, args[0]))
        if verb == "transform":
            if kw or not args:
                raise Unmodelled("attribute transforms on a non-spec value")
            if before_real is _MISSING:
                raise Unmodelled("transform of a missing value")
            import copy as _copy

            try:
                nv = FUNCS[args[0].name](_copy.deepcopy(before_real))
            except Exception:
                raise Unmodelled("transform raised")
            if getattr(type(nv), "__name__", "") == "_MissingType":
                raise Unmodelled("transform returned a sentinel")
            return abs_for_kind(kind, self.prepared(name, nv))
        raise Unmodelled(verb)


class FnName:
    def __init__(self, name):
        self.name = name
