"""
Parent process of a check:  bin/check <Cxx> [--tier quick|thorough] [--replay file]

exit 0  property held on everything explored (KNOWN-FINDING lines allowed)
exit 1  at least one "VIOLATION property=<id> replay=<path>" line
exit 2  harness failure (worker crash, non-reproducible case, nothing explored)
"""

import argparse
import importlib
import json
import os
import subprocess
import sys
import threading
import time

HERE = os.path.dirname(os.path.dirname(os.path.abspath(__file__)))
sys.path.insert(0, HERE)

from specsim.core import HASHSEEDS, KnownFindings, canon, digest, hashseed_for, run_seed  # noqa: E402
from specsim.harness import write_replay  # noqa: E402

PY = os.environ.get("SPECSIM_PYTHON", "/venv/bin/python")
WORKER = os.path.join(HERE, "specsim", "worker.py")
CHUNK_MAX = int(os.environ.get("SPECSIM_CHUNK", "150"))


def spawn_worker(prop, tier, hashseed, samples=0, run_timeout=None):
    env = dict(os.environ)
    env["PYTHONHASHSEED"] = str(hashseed)
    env["SPECSIM_SAMPLES"] = str(samples)
    env["PYTHONDONTWRITEBYTECODE"] = "1"
    if run_timeout:
        env["SPECSIM_RUN_TIMEOUT"] = str(run_timeout)
    return subprocess.Popen([PY, "-u", WORKER, prop, tier], stdin=subprocess.PIPE, stdout=subprocess.PIPE,
                            stderr=subprocess.PIPE, env=env, text=True, bufsize=1)


def one_shot(prop, tier, hashseed, request, timeout=600):
    """Send one request to a fresh worker and return its single result (or raise)."""
    p = spawn_worker(prop, tier, hashseed, run_timeout=timeout)
    try:
        out, err = p.communicate(json.dumps(request) + "\n", timeout=timeout + 30)
    except subprocess.TimeoutExpired:
        p.kill()
        raise RuntimeError("worker timed out")
    for line in out.splitlines():
        if line.startswith("@@ "):
            return json.loads(line[3:])
    raise RuntimeError(f"worker produced no result (rc={p.returncode}): {err[-2000:]}")


def load_check_class(prop):
    return importlib.import_module(f"specsim.props.{prop.lower()}").CHECK


def trim(obj, limit=6000):
    s = json.dumps(obj, default=str)
    if len(s) <= limit:
        return obj
    if isinstance(obj, dict) and "ops" in obj:
        o = dict(obj)
        o["ops"] = obj["ops"][:6]
        o["ops_truncated_from"] = len(obj["ops"])
        return trim_inner(o, limit)
    return trim_inner(obj, limit)


def trim_inner(obj, limit):
    s = json.dumps(obj, default=str)
    if len(s) <= limit:
        return obj
    return {"truncated_json": s[:limit]}


def replay_file(prop, tier, path):
    with open(path) as f:
        rep = json.load(f)
    case = rep["case"]
    hs = case.get("hashseed")
    if hs is None:
        hs = 0
    res = one_shot(prop, tier, hs, {"case": case})
    return rep, res


def main(argv=None):
    ap = argparse.ArgumentParser()
    ap.add_argument("prop")
    ap.add_argument("--tier", default=os.environ.get("VERIF_TIER", "quick"), choices=["quick", "thorough"])
    ap.add_argument("--replay")
    ap.add_argument("--runs", type=int, default=None)
    ap.add_argument("--workers", type=int, default=int(os.environ.get("SPECSIM_WORKERS", "16")))
    ap.add_argument("--no-evidence", action="store_true")
    args = ap.parse_args(argv)
    prop = args.prop.upper()
    tier = args.tier
    t0 = time.time()
    CheckCls = load_check_class(prop)
    batch_seed = int(os.environ.get("VERIF_SEED", "0") or 0)

    # ---- replay mode -------------------------------------------------------------
    if args.replay:
        rep, res = replay_file(prop, tier, args.replay)
        if "harness_error" in res:
            print("HARNESS-ERROR", res["harness_error"])
            print(res.get("trace", ""))
            return 2
        want = canon(rep.get("expect_sig")) if rep.get("expect_sig") else None
        hits = [v for v in res["violations"] if want is None or canon(v["sig"]) == want]
        print(f"replayed {args.replay}: digest={res['digest']} violations={len(res['violations'])} known={res['known']}")
        if hits:
            for v in hits[:3]:
                print("  sig:", json.dumps(v["sig"]))
                print("  detail:", json.dumps(v.get("detail"), default=str)[:1500])
            print(f"VIOLATION property={prop} replay={args.replay}")
            return 1
        if res["known"]:
            for k in res["known"]:
                print(f"KNOWN-FINDING: property={prop} {k} (reproduced by replay)")
        else:
            print("replay did not reproduce a violation")
        return 0

    known = KnownFindings()
    exit_code = 0
    harness_errors = []

    # ---- witnesses of open known findings ----------------------------------------------
    kf_status = {}
    for e in known.open_for(prop):
        wpath = os.path.join(HERE, e["witness"])
        try:
            rep, res = replay_file(prop, tier, wpath)
        except Exception as ex:
            harness_errors.append(f"witness {e['id']}: {ex}")
            continue
        if "harness_error" in res:
            harness_errors.append(f"witness {e['id']}: {res['harness_error']}")
            continue
        if res["known"].get(e["id"]):
            print(f"KNOWN-FINDING: property={prop} {e['id']}: {e['what']}")
            kf_status[e["id"]] = "reproduced"
        else:
            kf_status[e["id"]] = "not reproduced (defect seems gone)"
            # a different violation from the witness is reported below like any other
            for v in res["violations"]:
                print("  witness produced an unlisted violation:", json.dumps(v["sig"]))

    # ---- batch ----------------------------------------------------------------------
    n_runs = args.runs or int(os.environ.get("SPECSIM_RUNS", "0") or 0) or CheckCls.RUNS[tier]
    env_budget = float(os.environ.get("VERIF_BUDGET_S", "0") or 0)
    budget = env_budget or getattr(CheckCls, "BUDGET_S", {"quick": 90.0, "thorough": 900.0})[tier]
    seeds = [run_seed(prop, batch_seed, r) for r in range(n_runs)]
    groups = {hs: [] for hs in HASHSEEDS}
    for s in seeds:
        groups[hashseed_for(s)].append(s)
    nw = max(1, args.workers)
    per_group = max(1, nw // len(HASHSEEDS))
    chunks = []
    for hs, ss in groups.items():
        if not ss:
            continue
        size = min(CHUNK_MAX, max(1, -(-len(ss) // per_group)))
        for i in range(0, len(ss), size):
            chunks.append((hs, ss[i:i + size]))
    # interleave hash seeds so all four are explored even if the budget runs out
    chunks.sort(key=lambda c: (c[1][0] % 97, c[0]))
    results = []
    lock = threading.Lock()
    stop = threading.Event()
    deadline = t0 + budget
    chunk_iter = iter(list(enumerate(chunks)))
    first_sample = {"left": 3}
    procs = []

    def work():
        while not stop.is_set():
            with lock:
                try:
                    ci, (hs, ss) = next(chunk_iter)
                except StopIteration:
                    return
                want_sample = first_sample["left"] > 0
                if want_sample:
                    first_sample["left"] -= 1
            p = spawn_worker(prop, tier, hs, samples=1 if want_sample else 0)
            with lock:
                procs.append(p)
            done = 0
            try:
                def feed():
                    try:
                        for s in ss:
                            p.stdin.write(json.dumps({"seed": s}) + "\n")
                        p.stdin.close()
                    except (BrokenPipeError, ValueError):
                        pass

                threading.Thread(target=feed, daemon=True).start()
                killer = None
                for line in p.stdout:
                    if stop.is_set():
                        break
                    if not line.startswith("@@ "):
                        continue
                    res = json.loads(line[3:])
                    done += 1
                    with lock:
                        if "harness_error" in res:
                            harness_errors.append(res["harness_error"] + f" [seed={res.get('req', {}).get('seed')}]\n" + res.get("trace", ""))
                        else:
                            res["hashseed"] = hs
                            results.append(res)
                if stop.is_set():
                    p.kill()
                    p.wait()
                    return
                rc = p.wait(timeout=60)
                if rc != 0 or done < len(ss):
                    err = p.stderr.read()[-2000:]
                    with lock:
                        harness_errors.append(f"worker rc={rc} finished {done}/{len(ss)} runs: {err}")
            except Exception as ex:  # pragma: no cover
                with lock:
                    harness_errors.append(f"worker thread: {type(ex).__name__}: {ex}")
                try:
                    p.kill()
                except Exception:
                    pass

    threads = [threading.Thread(target=work, daemon=True) for _ in range(min(nw, len(chunks)))]
    for t in threads:
        t.start()
    budget_exhausted = False
    while any(t.is_alive() for t in threads):
        if time.time() >= deadline:
            budget_exhausted = True
            stop.set()
            with lock:
                for p in procs:
                    if p.poll() is None:
                        p.kill()
            break
        time.sleep(0.05)
    for t in threads:
        t.join(timeout=30)

    # ---- determinism spot check: first seeds again in fresh interpreters -------------------
    det = {"checked": 0, "mismatch": 0}
    by_seed = {r["seed"]: r for r in results}
    for s in seeds[: (4 if tier == "quick" else 12)]:
        if s not in by_seed:
            continue
        try:
            r2 = one_shot(prop, tier, hashseed_for(s), {"seed": s, "verify_replay": False})
        except Exception as ex:
            harness_errors.append(f"determinism re-run: {ex}")
            continue
        det["checked"] += 1
        if r2.get("digest") != by_seed[s]["digest"]:
            det["mismatch"] += 1
            harness_errors.append(f"HARNESS-NONDETERMINISM seed={s}: {by_seed[s]['digest']} vs {r2.get('digest')}")
    for r in results:
        if "replay_digest" in r and r["replay_digest"] != r["digest"]:
            harness_errors.append(f"HARNESS-NONDETERMINISM seed={r['seed']}: generated vs recorded-replay digest differ")

    # ---- violations ---------------------------------------------------------------------
    vio_by_sig = {}
    n_vio = 0
    for r in results:
        for v in r["violations"]:
            n_vio += 1
            vio_by_sig.setdefault(canon(v["sig"]), (v, r))
    reported = []
    min_budget = CheckCls.MINIMISE_BUDGET[tier]
    for sk, (v, r) in list(vio_by_sig.items())[:4]:
        case = r.get("case")
        if case is None:
            harness_errors.append("violation without recorded case")
            continue
        hs = case.get("hashseed", r["hashseed"])
        try:
            m = one_shot(prop, tier, hs, {"minimise": case, "sig": v["sig"], "budget": min_budget}, timeout=900)
            mcase = m.get("minimised", case)
            res2 = one_shot(prop, tier, hs, {"case": mcase})
        except Exception as ex:
            harness_errors.append(f"minimise/replay failed: {ex}")
            continue
        same = [x for x in res2.get("violations", []) if canon(x["sig"]) == sk]
        if not same:
            harness_errors.append(f"HARNESS-NONDETERMINISM: minimised case of seed {r['seed']} did not reproduce in a fresh interpreter")
            continue
        path = write_replay(prop, res2["case"], same[0], HERE)
        print("violation:", json.dumps(same[0]["sig"]))
        print("  detail:", json.dumps(same[0].get("detail"), default=str)[:1200])
        print(f"  minimised from {len(case.get('ops', []))} to {len(res2['case'].get('ops', []))} ops in {m.get('tries')} re-executions")
        print(f"VIOLATION property={prop} replay={path}")
        reported.append({"sig": same[0]["sig"], "replay": path})
        exit_code = 1
    if len(vio_by_sig) > 4:
        print(f"({len(vio_by_sig) - 4} further distinct violation signatures not minimised)")

    # ---- evidence -------------------------------------------------------------------------
    wall = time.time() - t0
    evaluations = sum(r["evaluations"] for r in results)
    cells = set()
    stats = {}
    known_hits = {}
    for r in results:
        cells.update(r["cells"])
        for k, x in r["stats"].items():
            stats[k] = stats.get(k, 0) + x
        for k, x in r["known"].items():
            known_hits[k] = known_hits.get(k, 0) + x
    samples = [trim(r["case"]) for r in results if "case" in r and not r["violations"]][:3]
    if not samples:
        samples = [trim(r["case"]) for r in results if "case" in r][:3]
    ev = {
        "property_id": prop,
        "tier": tier,
        "seed": batch_seed,
        "level": CheckCls.LEVEL,
        "coverage": {
            "evaluations": evaluations,
            "distinct_nontrivial": len(cells),
            "rule": CheckCls.RULE,
            "samples": samples,
            "runs": len(results),
            "runs_requested": n_runs,
            "runs_per_hour": int(len(results) / wall * 3600) if wall > 0 else 0,
            "budget_exhausted": budget_exhausted,
            "run_seeds": {"first": seeds[0] if seeds else None, "last": seeds[-1] if seeds else None,
                          "derivation": "sha256(f'{prop}:{VERIF_SEED}:{r}')[:8]"},
            "hashseeds": {str(hs): len(ss) for hs, ss in groups.items()},
            "simulated_time": "not applicable (no clock in the system); logical steps are reported in stats",
            "stats": stats,
            "cells_sample": sorted(cells)[:40],
            "known_findings_hit": known_hits,
            "known_findings_witnesses": kf_status,
            "determinism_spot_check": det,
            "components_real": CheckCls.COMPONENTS_REAL,
            "components_stubbed": CheckCls.COMPONENTS_STUBBED,
            "violation_signatures": [json.loads(k) for k in list(vio_by_sig)[:10]],
            "harness_errors": harness_errors[:5],
        },
        "assumptions": getattr(CheckCls, "ASSUMPTIONS", [
            "CPython 3.12 line-event granularity for aborts / pre-emptions",
            "user callbacks are pure functions from the harness pool",
            "sampling, not enumeration: a clean batch is evidence, not proof",
        ]),
        "wall_s": round(wall, 2),
        "violations": len(reported),
    }
    if not args.no_evidence:
        os.makedirs(os.path.join(HERE, "evidence"), exist_ok=True)
        with open(os.path.join(HERE, "evidence", f"{prop}.json"), "w") as f:
            json.dump(ev, f, indent=1, sort_keys=True, default=str)
    print(f"{prop} {tier}: runs={len(results)}/{n_runs} evaluations={evaluations} cells={len(cells)} "
          f"violations={n_vio} (distinct sigs {len(vio_by_sig)}) known_hits={known_hits} wall={wall:.1f}s"
          + (" [budget exhausted]" if budget_exhausted else ""))
    if harness_errors:
        for h in harness_errors[:5]:
            print("HARNESS-ERROR:", h[:2000])
        if exit_code == 0:
            exit_code = 2
    if not results and exit_code == 0:
        print("HARNESS-ERROR: nothing explored")
        exit_code = 2
    return exit_code


if __name__ == "__main__":
    sys.exit(main())
