"""
Fault injection seams.

F1  callback faults: every callback the harness hands to the library calls
    `FAULTS.hit(name)` first; the j-th hit within one operation raises InjectedFault.
F2  line aborts: a sys.settrace tracer raises SimInterrupt / SimMemoryError at the
    k-th `line` event executed in library frames (files under REPO/spec_classes or
    generated "<string>" wrappers) during one operation.
"""

import os
import sys

from .core import REPO_DIR, InjectedFault, SimInterrupt, SimMemoryError

LIB_PREFIX = os.path.join(os.path.realpath(REPO_DIR), "spec_classes") + os.sep


def is_lib_code(code):
    fn = code.co_filename
    return fn.startswith(LIB_PREFIX) or fn == "<string>"


def short_site(code, lineno):
    fn = code.co_filename
    if fn.startswith(LIB_PREFIX):
        fn = fn[len(LIB_PREFIX):]
    return f"{fn}:{code.co_name}:{lineno}"


class Faults:
    """
    One per world.  `begin(plan)` at the start of each execution of an operation.

    plan: None
          ("cb", j)              j-th callback invocation (any callback) raises
          ("cbname", name, j)    j-th invocation of the named callback raises
          ("line", k, kind)      abort at k-th library line event; kind 'interrupt'|'memory'
    """

    def __init__(self):
        self.plan = None
        self.cb_count = 0
        self.cb_by_name = {}
        self.cb_log = []
        self.line_count = 0
        self.fired = None
        self.total_fired = {"cb": 0, "line": 0}
        self.sites = set()
        self.counting_lines = False
        self._tracing = False

    def begin(self, plan=None, count_lines=False):
        self.plan = tuple(plan) if plan else None
        self.cb_count = 0
        self.cb_by_name = {}
        self.cb_log = []
        self.line_count = 0
        self.fired = None
        self.counting_lines = count_lines
        if (self.plan and self.plan[0] == "line") or count_lines:
            self._tracing = True
            sys.settrace(self._global_trace)

    def end(self):
        if self._tracing:
            sys.settrace(None)
            self._tracing = False

    # -- F1 -----------------------------------------------------------------
    def hit(self, name):
        self.cb_count += 1
        n = self.cb_by_name.get(name, 0) + 1
        self.cb_by_name[name] = n
        self.cb_log.append(name)
        p = self.plan
        if p is None or self.fired is not None:
            return
        if (p[0] == "cb" and p[1] == self.cb_count) or (
            p[0] == "cbname" and p[1] == name and p[2] == n
        ):
            self.fired = ["cb", name, n, lib_stack(sys._getframe(1))]
            self.total_fired["cb"] += 1
            raise InjectedFault(f"{name}#{n}")

    # -- F2 -----------------------------------------------------------------
    def _global_trace(self, frame, event, arg):
        if event == "call" and is_lib_code(frame.f_code):
            return self._local_trace
        return None

    def _local_trace(self, frame, event, arg):
        if event == "line":
            self.line_count += 1
            p = self.plan
            if p is not None and p[0] == "line" and self.fired is None and p[1] == self.line_count:
                site = short_site(frame.f_code, frame.f_lineno)
                self.fired = ["line", site, self.line_count, lib_stack(frame)]
                self.total_fired["line"] += 1
                self.sites.add(site)
                self._tracing = False  # CPython unsets the trace function when it raises
                if p[2] == "memory":
                    raise SimMemoryError(site)
                raise SimInterrupt(site)
        return self._local_trace


def lib_stack(frame):
    """Names of the library functions on the stack (innermost first)."""
    out = []
    while frame is not None and len(out) < 40:
        if is_lib_code(frame.f_code):
            out.append(frame.f_code.co_name)
        frame = frame.f_back
    return out


def make_callback(faults, name, fn):
    """Wrap a pure function as a fault point (plain function: usable as method too)."""

    def cb(*args, **kwargs):
        faults.hit(name)
        return fn(*args, **kwargs)

    cb.__name__ = f"cb_{name}".replace(":", "_").replace(".", "_")
    cb.__qualname__ = cb.__name__
    cb.__fault_name__ = name
    return cb
