"""
C14 -- KeyedSet is a set of items identified by key.

Seeded histories of set / mapping operations on a real KeyedSet against a reference
model "ordered mapping key -> most recently added item", for both settings of
enforce_item_equivalence, typed and untyped containers, item-or-key arguments, and
binary operators against KeyedSet and built-in set operands (checked on keys).
Where the universe has an explicit key function every operation is re-executed with
an InjectedFault at each key-function invocation.
"""

from ..core import HarnessError, strip_addr
from ..faults import Faults
from ..harness import Check
from ..snap import abs_value
from .c13 import Env, item_eq

UNIVERSES = ["str", "int", "tuple_keyfn", "kitem", "kitem_typed", "str_typed", "tuple_typed", "unhashable_keyfn",
             "repr_keyfn", "repr_keyfn", "mod_keyfn", "mod_keyfn", "selfkey_typed", "unhashable_tuple_keyfn", "kitem_attrkey"]
BINOPS = ["or", "and", "sub", "xor"]
CMPOPS = ["le", "lt", "ge", "gt", "eq", "ne", "isdisjoint"]
INPLACE = ["ior", "iand", "isub", "ixor"]


class _FixedSrc:
    """Deterministic stand-in for a Source: always the first choice."""

    def choice(self, seq):
        return seq[0]


class SetEnv(Env):
    def __init__(self, universe, faults, enforce):
        if universe in ("unhashable_keyfn", "unhashable_tuple_keyfn"):
            # unhashable items with a hashable key (their first element): lists, or tuples that are unhashable only by
            # content -- (k, [payload]) -- although their class looks hashable
            super().__init__("tuple_keyfn", faults, container="set", enforce=enforce)
            self.unhashable = "list" if universe == "unhashable_keyfn" else "tuple"
        else:
            super().__init__(universe, faults, container="set", enforce=enforce)
            self.unhashable = False
        self.universe_name = universe

    def build(self, v):
        x = super().build(v)
        if self.unhashable == "list" and isinstance(x, tuple):
            return list(x)
        if self.unhashable == "tuple" and isinstance(x, tuple) and x:
            return (x[0], list(x[1:]))
        return x

    def keyable(self, item):
        if self.unhashable:
            return isinstance(item, (list, tuple)) and bool(item) and isinstance(item[0], (str, int))
        return super().keyable(item)


class C14(Check):
    PROP = "C14"
    LEVEL = "exploration"
    RUNS = {"quick": 3000, "thorough": 60000}
    N_OPS = {"quick": (6, 22), "thorough": (8, 40)}
    RULE = ("seeded histories over KeyedSet for 14 item universes (self-keyed str / int, tuples, unhashable lists and tuples "
            "unhashable only by content with an explicit key function, non-injective / repr / attribute-reading key functions, "
            "keyed spec items; untyped and KeyedSet[T, K]) x enforce_item_equivalence on/off; binary operators, comparisons and "
            "in-place operators against KeyedSet and built-in set operands are judged on keys (also when the operand holds an "
            "unequal item under a shared key; the empty built-in set is an operand for unhashable universes); each "
            "operation runs against the reference mapping model and, for universes with a key function, is re-executed with "
            "an InjectedFault at every key-function invocation index. evaluations = operation executions; "
            "distinct_nontrivial = distinct (universe, enforce, operation, argument class, size 0..4/5+, outcome class).")

    OPS = [("add", 5), ("discard", 3), ("remove", 2), ("contains", 3), ("getitem", 3), ("get", 1), ("pop", 1),
           ("clear", 0.3), ("binop", 4), ("cmp", 3), ("inplace", 3)]

    def gen_arg(self, src, env, m, allow_bad=True):
        """item-or-key argument: -> (valref, class label)"""
        keys = list(m.keys())
        r = src.random()
        if keys and r < 0.3:
            return ["itemof", src.randint(0, len(keys) - 1)], "existing_item"
        if keys and r < 0.55:
            return ["keyof", src.randint(0, len(keys) - 1)], "existing_key"
        if keys and r < 0.7 and not env.universe.startswith(("str", "int")):
            return ["variantof", src.randint(0, len(keys) - 1)], "same_key_other_payload"
        if r < 0.85:
            return env.gen_item(src), "fresh_item"
        return src.choice(["zz", "yy"]), "missing_key"

    def gen_op(self, src, env, m):
        name = src.weighted(self.OPS)
        op = {"op": name}
        bad = src.chance(0.1)
        if name == "add":
            if bad:
                op["v"], op["cls"] = env.gen_bad_item(src), "bad"
            elif m and src.chance(0.3):
                op["v"], op["cls"] = ["variantof", src.randint(0, len(m) - 1)], "same_key_other_payload"
            elif m and src.chance(0.2):
                op["v"], op["cls"] = ["equalof", src.randint(0, len(m) - 1)], "equal_item"
            else:
                op["v"], op["cls"] = env.gen_item(src), "fresh_item"
        elif name in ("discard", "remove", "contains", "getitem"):
            op["v"], op["cls"] = self.gen_arg(src, env, m)
        elif name == "get":
            op["v"], op["cls"] = (["keyof", src.randint(0, len(m) - 1)], "existing_key") if m and src.chance(0.7) else ("zz", "missing_key")
        elif name in ("binop", "cmp", "inplace"):
            op["which"] = src.choice({"binop": BINOPS, "cmp": CMPOPS, "inplace": INPLACE}[name])
            others = []
            keys = list(m.keys())
            for _ in range(src.randint(0, 3)):
                if keys and src.chance(0.5):
                    others.append(["equalof", src.randint(0, len(keys) - 1)])
                else:
                    others.append(env.gen_item(src))
            op["other"] = others
            op["other_kind"] = src.choice(["keyed", "keyed", "set"]) if not getattr(env, "unhashable", False) else "keyed"
            if getattr(env, "unhashable", False) and name != "inplace" and src.chance(0.2):
                # (a built-in set cannot hold unhashable items, but the empty set is a perfectly good operand)
                op["other"], op["other_kind"] = [], "set"
            if name == "inplace" and bad and others:
                op["other"][src.randint(0, len(others) - 1)] = env.gen_bad_item(src)
                op["other_kind"] = "list"
            op["cls"] = op["other_kind"]
        return op

    @staticmethod
    def resolve(env, m, v):
        vals = list(m.values())
        keys = list(m.keys())
        if isinstance(v, list) and v and v[0] in ("itemof", "keyof", "variantof", "equalof"):
            if not vals:
                return "zz" if v[0] == "keyof" else env.build(env.gen_item(_FixedSrc()))
            i = v[1] % len(vals)
            if v[0] == "itemof":
                return vals[i]
            if v[0] == "keyof":
                return keys[i]
            it = vals[i]
            k = keys[i]
            u = env.universe
            if v[0] == "equalof":
                # a fresh object equal to the stored item
                if type(it).__name__ == "KItem":
                    return env.KItem(**{a: b for a, b in it.__dict__.items() if not a.startswith("__")})
                if isinstance(it, list):
                    return list(it)
                return it
            # same key, different payload
            if type(it).__name__ == "KItem":
                return env.KItem(k=k, v=it.__dict__.get("v", 0) + 5)
            if isinstance(it, tuple):
                return (k, (it[1] if len(it) > 1 and isinstance(it[1], int) else 0) + 5)
            if isinstance(it, list):
                return [k, (it[1] if len(it) > 1 and isinstance(it[1], int) else 0) + 5]
            if u == "mod_keyfn" and isinstance(it, int):
                return it + 3
            return it
        return env.build(v)

    # -- model ------------------------------------------------------------------------
    def lookup(self, env, m, x):
        """item-or-key resolution: -> key present in m that x designates, or None."""
        try:
            if x in m:
                return x
        except TypeError:
            pass
        if env.keyable(x) and (env.type_ok(x) or True):
            k = env.key(x)
            try:
                if k in m and (not env.enforce or item_eq(x, m[k])):
                    return k
            except TypeError:
                pass
        return None

    def check_new(self, env, m, v):
        if not env.keyable(v):
            return "any_error"
        if not env.type_ok(v):
            return "TypeError"
        k = env.key(v)
        if env.enforce and k in m and not item_eq(m[k], v):
            return "ValueError"
        return None

    # -- coherence / reads ---------------------------------------------------------------
    def observe_mismatch(self, env, s, m):
        try:
            items = list(s)
            if len(s) != len(m) or len(items) != len(m):
                return f"len/iteration {len(s)}/{len(items)} != model {len(m)}"
            got = {}
            for it in items:
                got[repr(env.key(it))] = it
            for k, v in m.items():
                g = got.get(repr(k))
                if g is None or (g is not v and not item_eq(g, v)):
                    return f"key {k!r}: {strip_addr(repr(g))[:60]} != model {strip_addr(repr(v))[:60]}"
                if g is not v:
                    return f"key {k!r}: equal but not the most recently added object"
            if set(map(repr, s.keys())) != set(map(repr, m.keys())):
                return "keys() != model keys"
            for k, v in s.items():
                if k not in m or m[k] is not v:
                    return "items() disagrees with model"
            for k, v in m.items():
                if s[k] is not v or s.get(k) is not v or (k in s) is not True:
                    return f"lookup by key {k!r} disagrees"
                if s[v] is not v or (v in s) is not True:
                    return f"lookup by item for key {k!r} disagrees"
            if s.get("__missing__") is not None or ("__missing__" in s):
                return "missing key found"
            return None
        except Exception as e:
            return f"read raised {type(e).__name__}: {strip_addr(str(e))[:100]}"

    def wrong_type_admitted(self, env, s):
        if not env.typed:
            return None
        for k, v in s._dict.items():
            if not env.type_ok(v):
                return f"item {strip_addr(repr(v))[:60]} of wrong type admitted"
        return None

    # -- driver ---------------------------------------------------------------------------
    def drive(self, ctx):
        src = ctx.src
        if ctx.replay:
            c = ctx.case_in
            universe, enforce, init, ops_in = c["universe"], c["enforce"], c["init"], c["ops"]
        else:
            universe = src.choice(UNIVERSES)
            enforce = src.chance(0.5)
            init = None
            ops_in = None
        faults = Faults()
        env = SetEnv(universe, faults, enforce)
        if init is None:
            init = []
            seen = set()
            for _ in range(src.randint(0, 4)):
                it = env.gen_item(src)
                k = repr(env.key(env.build(it)))
                if k not in seen:
                    seen.add(k)
                    init.append(it)
        ctx.case.update({"universe": universe, "enforce": enforce, "init": init, "ops": []})
        built = [env.build(x) for x in init]
        m = {env.key(x): x for x in built}
        faults.begin(None)
        try:
            s = env.new(list(built))
        except BaseException as e:  # noqa: BLE001 (incl. the library's BaseTypeError): conforming, uniquely keyed items
            if type(e).__name__ in ("KeyboardInterrupt", "SystemExit"):
                raise
            ctx.violate({"invariant": "construction_from_conforming_items_succeeds", "universe": universe, "exc": type(e).__name__},
                        {"msg": strip_addr(str(e))[:200]})
            return
        mm = self.observe_mismatch(env, s, m)
        if mm:
            ctx.violate({"invariant": "reads_agree_with_model", "op": "construct", "universe": universe}, {"mismatch": mm})
            return
        n_ops = len(ops_in) if ctx.replay else src.randint(*self.N_OPS[ctx.tier])
        for idx in range(n_ops):
            op = ops_in[idx] if ctx.replay else self.gen_op(src, env, m)
            ctx.case["ops"].append(op)
            s, m = self.step(ctx, env, faults, s, m, op, idx)

    def make_other(self, env, m, op):
        items = [self.resolve(env, m, v) for v in op["other"]]
        kind = op["other_kind"]
        if kind != "list":
            # one item per key in the other operand (keep the last), so that building it cannot fail
            dedup = {}
            for it in items:
                dedup[repr(env.key(it)) if env.keyable(it) else repr(it)] = it
            items = list(dedup.values())
        if kind == "keyed":
            return env.new(items), items
        if kind == "set":
            try:
                st = set(items)
                # (a built-in set identifies items by equality: 1, 1.0 and True collapse into one element, so the
                # operand's items are what the set actually holds)
                return st, [x for x in items if any(x is y for y in st)]
            except TypeError:
                return env.new(items), items
        return items, items

    def step(self, ctx, env, faults, s, m, op, idx):
        name = op["op"]
        u = env.universe_name
        sig = {"op": name if name not in ("binop", "cmp", "inplace") else op["which"], "universe": u, "enforce": env.enforce}
        j = 1
        while True:
            before = dict(m)
            plan = ("cb", j) if env.keyfn_real is not None else None
            # ---- expected -------------------------------------------------------------------
            exp_kind, exp_val, nm = "ok", None, dict(m)
            arg = self.resolve(env, m, op["v"]) if "v" in op else None
            other = other_items = None
            if name == "add":
                err = self.check_new(env, m, arg)
                if err:
                    exp_kind = err
                else:
                    nm[env.key(arg)] = arg
            elif name in ("discard", "remove", "contains", "getitem"):
                k = self.lookup(env, m, arg)
                if name == "contains":
                    exp_val = k is not None
                elif name == "getitem":
                    # lookup by key, or by (the key of) an item -- equivalence is not required for lookup
                    kk = None
                    try:
                        if arg in m:
                            kk = arg
                    except TypeError:
                        pass
                    if kk is None and env.keyable(arg):
                        try:
                            kk = env.key(arg) if env.key(arg) in m else None
                        except TypeError:
                            kk = None
                    if kk is None:
                        # (the set behaves like a mapping from key to item: an absent key -- also one the key function
                        # cannot be applied to -- is a KeyError)
                        exp_kind = "KeyError"
                    else:
                        exp_val = m[kk]
                elif k is None:
                    if name == "remove":
                        exp_kind = "KeyError"
                else:
                    del nm[k]
            elif name == "get":
                try:
                    exp_val = m.get(arg)
                except TypeError:
                    exp_kind = "TypeError"
            elif name == "pop":
                if not m:
                    exp_kind = "KeyError"
                else:
                    k0 = next(iter(m))
                    exp_val = m[k0]
                    del nm[k0]
            elif name == "clear":
                nm = {}
            else:
                faults.begin(None)
                other, other_items = self.make_other(env, m, op)
            # ---- real ----------------------------------------------------------------------
            faults.begin(plan)
            got, got_exc = None, None
            try:
                if name == "add":
                    got = s.add(arg)
                elif name == "discard":
                    got = s.discard(arg)
                elif name == "remove":
                    got = s.remove(arg)
                elif name == "contains":
                    got = arg in s
                elif name == "getitem":
                    got = s[arg]
                elif name == "get":
                    got = s.get(arg)
                elif name == "pop":
                    got = s.pop()
                elif name == "clear":
                    got = s.clear()
                elif name == "binop":
                    w = op["which"]
                    got = (s | other) if w == "or" else (s & other) if w == "and" else (s - other) if w == "sub" else (s ^ other)
                elif name == "cmp":
                    w = op["which"]
                    got = {"le": lambda: s <= other, "lt": lambda: s < other, "ge": lambda: s >= other,
                           "gt": lambda: s > other, "eq": lambda: s == other, "ne": lambda: s != other,
                           "isdisjoint": lambda: s.isdisjoint(other)}[w]()
                elif name == "inplace":
                    w = op["which"]
                    s2 = s
                    if w == "ior":
                        s2 |= other
                    elif w == "iand":
                        s2 &= other
                    elif w == "isub":
                        s2 -= other
                    else:
                        s2 ^= other
                    got = s2 is s
            except BaseException as e:  # noqa: BLE001
                if type(e).__name__ in ("KeyboardInterrupt", "SystemExit", "RecursionError"):
                    raise
                got_exc = e
            faults.end()
            fired = faults.fired
            faults.begin(None)
            ctx.evaluations += 1
            outcome = ("fault" if fired else "") + (type(got_exc).__name__ if got_exc else "ok")
            ctx.cell(u, env.enforce, sig["op"], op.get("cls", "-"), min(len(m), 5), outcome)
            bad_adm = self.wrong_type_admitted(env, s)
            if bad_adm:
                ctx.violate(dict(sig, invariant="never_admits_wrong_type"), {"op": op, "what": bad_adm}, idx)
                s = env.new(list(m.values()))
            if fired and got_exc is not None:
                ctx.bump("fired_cb")
                if name in ("add", "discard", "remove", "contains", "getitem", "get", "pop", "binop", "cmp"):
                    mm = self.observe_mismatch(env, s, m)
                    if mm:
                        ctx.violate(dict(sig, invariant="unchanged_after_raise", fault="keyfn"),
                                    {"op": op, "j": j, "mismatch": mm}, idx)
                        s = env.new(list(m.values()))
                else:
                    # bulk in-place operations are not required to be atomic; the container must stay coherent
                    m2 = self.resync(env, s)
                    if m2 is None:
                        ctx.violate(dict(sig, invariant="coherent_after_raise", fault="keyfn"), {"op": op, "j": j}, idx)
                        s = env.new(list(m.values()))
                    else:
                        m = m2
                j += 1
                if j > 60:
                    break
                continue
            # ---- compare un-faulted execution ------------------------------------------------------
            if name in ("binop", "cmp", "inplace"):
                m = self.check_algebra(ctx, env, sig, s, m, op, other, other_items, got, got_exc, idx)
                mm = None if name == "inplace" else self.observe_mismatch(env, s, m)
                if mm:
                    ctx.violate(dict(sig, invariant="operand_unchanged"), {"op": op, "mismatch": mm}, idx)
                    s = env.new(list(m.values()))
                break
            if exp_kind != "ok":
                if got_exc is None:
                    ctx.violate(dict(sig, invariant="must_raise", want=exp_kind),
                                {"op": op, "arg": strip_addr(repr(arg))[:80], "got": strip_addr(repr(got))[:80]}, idx)
                    s = env.new(list(m.values()))
                elif exp_kind != "any_error" and type(got_exc).__name__ != exp_kind and not (
                        exp_kind == "TypeError" and type(got_exc).__name__ == "BaseTypeError"):
                    ctx.violate(dict(sig, invariant="exception_class", want=exp_kind, got=type(got_exc).__name__),
                                {"op": op, "msg": strip_addr(str(got_exc))[:160]}, idx)
                mm = self.observe_mismatch(env, s, m)
                if mm:
                    ctx.violate(dict(sig, invariant="unchanged_after_raise", fault="none", exc=exp_kind),
                                {"op": op, "mismatch": mm}, idx)
                    s = env.new(list(m.values()))
                break
            if got_exc is not None:
                ctx.violate(dict(sig, invariant="unexpected_exception", got=type(got_exc).__name__),
                            {"op": op, "arg": strip_addr(repr(arg))[:80], "msg": strip_addr(str(got_exc))[:160]}, idx)
                s = env.new(list(m.values()))
                break
            if name in ("contains",):
                if got is not exp_val:
                    ctx.violate(dict(sig, invariant="result_value", argcls=op.get("cls")),
                                {"op": op, "arg": strip_addr(repr(arg))[:80], "got": got, "want": exp_val}, idx)
            elif name in ("getitem", "get", "pop"):
                if got is not exp_val and not (isinstance(exp_val, (str, int)) and got == exp_val):
                    ctx.violate(dict(sig, invariant="result_value", argcls=op.get("cls")),
                                {"op": op, "got": strip_addr(repr(got))[:80], "want": strip_addr(repr(exp_val))[:80]}, idx)
            m = nm
            mm = self.observe_mismatch(env, s, m)
            if mm:
                ctx.violate(dict(sig, invariant="reads_agree_with_model", argcls=op.get("cls")), {"op": op, "mismatch": mm}, idx)
                s = env.new(list(m.values()))
            break
        ctx.log(idx, sig["op"], abs_value(list(m.values())))
        return s, m

    def resync(self, env, s):
        """Model re-read from the real container; None if the container is incoherent."""
        try:
            m = {}
            for k, v in s._dict.items():
                if repr(env.key(v)) != repr(k):
                    return None
                m[k] = v
            if len(list(s)) != len(m):
                return None
            return m
        except Exception:
            return None

    def check_algebra(self, ctx, env, sig, s, m, op, other, other_items, got, got_exc, idx):
        name, w = op["op"], op["which"]
        # keys of the other operand, under the model key function (built-in sets hold items)
        okeys = []
        unkeyable = False
        for it in other_items:
            if env.keyable(it) and env.type_ok(it):
                okeys.append(env.key(it))
            else:
                unkeyable = True
        mk = list(m.keys())
        ko = set(map(repr, okeys))
        ks = set(map(repr, mk))
        collide_unequal = any(
            env.key(it) in m and not item_eq(m[env.key(it)], it) for it in other_items if env.keyable(it) and env.type_ok(it))
        if name == "inplace":
            if unkeyable:
                # a wrong-typed / un-keyable item must be rejected (or ignored by discarding ops); never admitted
                m2 = self.resync(env, s)
                if m2 is None:
                    ctx.violate(dict(sig, invariant="coherent_after_raise"), {"op": op}, idx)
                    return m
                # (no exception is demanded: the statement only says a wrong-typed item is never *admitted*,
                #  which `wrong_type_admitted` checks after every execution; e.g. `s ^= ["a", item_a]` may
                #  legitimately drop the stray "a" while de-duplicating the operand by key)
                return m2
            if got_exc is not None:
                if env.enforce and collide_unequal and isinstance(got_exc, ValueError):
                    m2 = self.resync(env, s)
                    return m2 if m2 is not None else m
                ctx.violate(dict(sig, invariant="unexpected_exception", got=type(got_exc).__name__),
                            {"op": op, "msg": strip_addr(str(got_exc))[:160]}, idx)
                m2 = self.resync(env, s)
                return m2 if m2 is not None else m
            if got is not True:
                ctx.violate(dict(sig, invariant="inplace_returns_self"), {"op": op}, idx)
            if env.enforce and collide_unequal and w == "ior":
                # |= adds the operand's items: an unequal item under an existing key must be refused
                ctx.violate(dict(sig, invariant="must_raise", want="ValueError", other=op["other_kind"]), {"op": op}, idx)
            if collide_unequal and env.enforce:
                m2 = self.resync(env, s)  # (which of the unequal items under a shared key wins is not pinned down here)
                return m2 if m2 is not None else m
            want = {"ior": ks | ko, "iand": ks & ko, "isub": ks - ko, "ixor": ks ^ ko}[w]
            m2 = self.resync(env, s)
            if m2 is None:
                ctx.violate(dict(sig, invariant="coherent_after_op"), {"op": op}, idx)
                return m
            if set(map(repr, m2.keys())) != want:
                ctx.violate(dict(sig, invariant="algebra_on_keys", other=op["other_kind"], collide=bool(collide_unequal)),
                            {"op": op, "got": sorted(map(repr, m2.keys())), "want": sorted(want)}, idx)
            return m2
        if unkeyable:
            return m
        if got_exc is not None:
            if env.enforce and collide_unequal and isinstance(got_exc, ValueError):
                return m
            ctx.violate(dict(sig, invariant="unexpected_exception", got=type(got_exc).__name__, other=op["other_kind"]),
                        {"op": op, "msg": strip_addr(str(got_exc))[:160]}, idx)
            return m
        if env.enforce and collide_unequal:
            if name == "binop" and w == "or":
                # the union would hold two unequal items under one key: building it adds one onto the other
                ctx.violate(dict(sig, invariant="must_raise", want="ValueError", other=op["other_kind"]), {"op": op}, idx)
            return m
        if collide_unequal and w in ("eq", "ne"):
            # == compares the mappings (key AND item): two sets holding unequal items under one key are not equal
            return m
        if name == "binop":
            want = {"or": ks | ko, "and": ks & ko, "sub": ks - ko, "xor": ks ^ ko}[w]
            try:
                gitems = list(got)
                gk = [repr(env.key(x)) for x in gitems]
            except Exception as e:
                ctx.violate(dict(sig, invariant="result_readable"), {"op": op, "msg": str(e)[:100]}, idx)
                return m
            if set(gk) != want or len(gk) != len(set(gk)):
                ctx.violate(dict(sig, invariant="algebra_on_keys", other=op["other_kind"], collide=bool(collide_unequal)),
                            {"op": op, "got": sorted(gk), "want": sorted(want),
                             "self": sorted(ks), "other_keys": sorted(ko)}, idx)
            elif type(got).__name__ != "KeyedSet":
                ctx.violate(dict(sig, invariant="result_type", got=type(got).__name__), {"op": op}, idx)
        else:
            want = {"le": ks <= ko, "lt": ks < ko, "ge": ks >= ko, "gt": ks > ko, "eq": ks == ko, "ne": ks != ko,
                    "isdisjoint": not (ks & ko)}[w]
            if got is not want:
                ctx.violate(dict(sig, invariant="comparison_on_keys", other=op["other_kind"], collide=bool(collide_unequal)),
                            {"op": op, "got": got, "want": want, "self": sorted(ks), "other_keys": sorted(ko)}, idx)
        return m


CHECK = C14
