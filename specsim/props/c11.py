"""
C11 -- derived values are never stale after a dependency changes.

Per run a dependency graph over <= 6 names is generated: managed attributes (int, list),
an unmanaged attribute, cached / uncached spec_properties with invalidated_by lists
(incl. '*'), attribute -> attribute -> property and property -> property chains, a
dependant added in a spec subclass, caches filled in __post_init__.  Histories
interleave reads (cache fills), overrides and every mutation entry point (setattr,
delattr, scalar helper, element helper, update, transform, reset; in place and
copy-on-write; some failing through an ill-typed value or an injected callback fault).

After every step, for every affected instance: each property read equals the getter
evaluated by a cache-free reference evaluation of current state; each invalidated_by
attribute whose dependency was successfully mutated is back at its default; after an
unrelated or failed mutation every cache slot is the same object as before.
"""

from typing import List

from ..core import strip_addr
from ..faults import Faults, make_callback
from ..grammar import FUNCS, _summ
from ..harness import Check
from ..snap import abs_value, is_spec_instance
from ..world import Outcome

NOSLOT = "<no-slot>"


def build_classes(spec, faults):
    from spec_classes import Attr, spec_class, spec_property

    def make_getter(pname, reads):
        def getter(self):
            faults.hit(f"getter:{pname}")
            return tuple(_read(self, r, spec) for r in reads)
        getter.__name__ = pname
        return getter

    def make_property(p):
        # The same descriptor reached four ways: the constructor, or the decorator-with-options form followed by the
        # property-style .getter / .setter / .deleter chain (each step rebuilds the descriptor and must carry every
        # option, invalidated_by included).  The chained setter / deleter do exactly what the built-in override slot does.
        g = make_getter(p["name"], p["reads"])
        kw = dict(cache=p["cache"], overridable=p.get("overridable", True),
                  invalidated_by=list(p["invalidated_by"]) if p["invalidated_by"] else None)
        style = p.get("style", "ctor")
        name = p["name"]
        if style == "ctor":
            return spec_property(g, **kw)
        if style == "getter":
            return spec_property(**kw)(lambda self: None).getter(g)
        if style == "setter":
            def fset(self, value):
                self.__dict__[name] = value
            return spec_property(**kw)(g).setter(fset)

        def fdel(self):
            if name not in self.__dict__:
                raise AttributeError(name)
            del self.__dict__[name]
        return spec_property(**kw)(g).deleter(fdel)

    def namespace(attrs, props, post_init_reads):
        ns = {"__module__": "specsim.generated"}
        ann = {}
        for a in attrs:
            ann[a["name"]] = int if a["kind"] == "int" else List[int]
            dflt = a["default"]
            inv = a.get("invalidated_by")
            if dflt is None:
                continue  # declared without a default: deleting it while unset fails
            if inv:
                ns[a["name"]] = Attr(default=list(dflt) if isinstance(dflt, list) else dflt, invalidated_by=list(inv))
            else:
                ns[a["name"]] = list(dflt) if isinstance(dflt, list) else dflt
        ns["__annotations__"] = ann
        for p in props:
            ns[p["name"]] = make_property(p)
        if post_init_reads is not None:
            def post_init(self):
                self.u = 0  # unmanaged attribute
                for r in post_init_reads:
                    getattr(self, r)
                if spec.get("post_init_bump"):
                    # a dependency re-assigned after the caches were filled, still inside __post_init__
                    setattr(self, spec["post_init_bump"], getattr(self, spec["post_init_bump"]) + 1)
            ns["__post_init__"] = post_init
        return ns

    Host = type("Host", (), namespace(spec["attrs"], spec["props"], spec["post_init_reads"]))
    Host = spec_class(bootstrap=spec.get("eager", False))(Host)
    classes = {"host": Host}
    if spec.get("sub"):
        sns = namespace([], spec["sub"]["props"], None)
        if spec["sub"].get("via_mixin") and spec["sub"]["kind"] == "spec":
            # the derived values are declared on a plain class in the middle of the hierarchy; the decorated class below
            # it has to know about them all the same
            Mid = type("Mid", (Host,), sns)
            Sub = type("Sub", (Mid,), {"__module__": "specsim.generated", "__annotations__": {}})
        else:
            Sub = type("Sub", (Host,), sns)
        Sub = spec_class(bootstrap=spec.get("eager", False))(Sub) if spec["sub"]["kind"] == "spec" else Sub
        classes["sub"] = Sub
    return classes


def _read(inst, name, spec):
    if name in _prop_names(spec, inst):
        return getattr(inst, name)
    return _summ(inst.__dict__.get(name))


def _prop_names(spec, inst=None):
    names = [p["name"] for p in spec["props"]]
    if spec.get("sub") and (inst is None or type(inst).__name__ == "Sub"):
        names += [p["name"] for p in spec["sub"]["props"]]
    return names


def props_for(spec, inst):
    ps = list(spec["props"])
    if spec.get("sub") and type(inst).__name__ == "Sub":
        ps += spec["sub"]["props"]
    return ps


class C11(Check):
    PROP = "C11"
    LEVEL = "exploration"
    RUNS = {"quick": 1500, "thorough": 30000}
    N_OPS = {"quick": (8, 24), "thorough": (10, 40)}
    RULE = ("seeded dependency graphs (managed / unmanaged dependencies, '*', attribute and property chains with cached and "
            "uncached links, derived values named like private helpers (_p<i>), subclass dependants, caches filled in __post_init__) x seeded histories of reads, overrides and "
            "every mutation entry point (in place / copy-on-write, some failing by ill-typed value or injected callback fault). "
            "evaluations = operations + oracle reads; distinct_nontrivial = distinct (mutation entry point, in-place flag, outcome, "
            "set of dependant kinds in the invalidation closure (cached prop / uncached prop / attribute), chain depth).")

    # -- graph generation ---------------------------------------------------------------------
    def gen_spec(self, src):
        attrs = [{"name": "a", "kind": "int", "default": 1}, {"name": "b", "kind": "int", "default": 2},
                 {"name": "xs", "kind": "list", "default": [1, 2]}, {"name": "c", "kind": "int", "default": None}]
        if src.chance(0.5):
            attrs[1]["invalidated_by"] = ["a"]  # attribute -> attribute chain
        if src.chance(0.25):
            attrs[2]["invalidated_by"] = [src.choice(["a", "b"])]
        base_names = ["a", "b", "xs", "u", "c"]
        props = []
        n_props = src.randint(1, 3)
        for i in range(n_props):
            # one in four is a private helper cache (un-annotated, underscore-prefixed): a derived value like any other
            name = f"_p{i}" if src.chance(0.25) else f"p{i}"
            cands = base_names + [p["name"] for p in props]
            if src.chance(0.12):
                deps = ["*"]
                reads = src.sample(base_names, src.randint(1, 2))
            else:
                deps = src.sample(cands, src.randint(1, 2))
                # bias towards chains through an earlier property
                if props and src.chance(0.5) and props[-1]["name"] not in deps:
                    deps[0] = props[-1]["name"]
                reads = list(deps)
            style = src.choice(["ctor", "ctor", "getter", "setter", "deleter"])
            props.append({"name": name, "cache": src.chance(0.65), "invalidated_by": deps, "reads": reads,
                          # (one in five cannot be assigned at all: the assignment fails and must discard nothing)
                          "overridable": style == "setter" or not src.chance(0.2), "style": style})
        spec = {"attrs": attrs, "props": props, "eager": src.chance(0.4),
                "post_init_bump": src.choice([None, None, "a", "b"]),
                "post_init_reads": src.sample([p["name"] for p in props], src.randint(0, len(props)))}
        if src.chance(0.35):
            cands = base_names + [p["name"] for p in props]
            deps = src.sample(cands, src.randint(1, 2))
            spec["sub"] = {"kind": src.choice(["spec", "spec", "plain"]),
                           "props": [{"name": "s0", "cache": src.chance(0.7), "invalidated_by": deps, "reads": list(deps),
                                      "overridable": True, "style": src.choice(["ctor", "ctor", "setter", "deleter"])}]}
            if spec["sub"]["kind"] == "spec" and src.chance(0.4):
                spec["sub"]["via_mixin"] = True
        return spec

    # -- reference evaluation -------------------------------------------------------------------
    def expected(self, spec, inst, name, overrides, depth=0):
        if depth > 8:
            return "<deep>"
        for p in props_for(spec, inst):
            if p["name"] == name:
                if (id(inst), name) in overrides:
                    return overrides[(id(inst), name)]
                return tuple(self.expected(spec, inst, r, overrides, depth + 1) for r in p["reads"])
        return _summ(inst.__dict__.get(name))

    def closure(self, spec, inst, mutated):
        """Names (attributes and properties) that must be invalidated after `mutated` changed (transitive)."""
        out, frontier, seen = [], list(mutated), set(mutated)
        deps = {}
        for a in spec["attrs"]:
            deps[a["name"]] = a.get("invalidated_by") or []
        for p in props_for(spec, inst):
            deps[p["name"]] = p["invalidated_by"] or []
        while frontier:
            c = frontier.pop(0)
            for n, inv in deps.items():
                if n in seen or n == c:
                    continue
                if c in inv or "*" in inv:
                    seen.add(n)
                    out.append(n)
                    frontier.append(n)
        return out

    # -- operations ---------------------------------------------------------------------------------
    def gen_op(self, src, spec, insts):
        kinds = [("read", 5), ("set", 4), ("del", 1.5), ("with", 3), ("transform", 2), ("update_attr", 1), ("reset_attr", 1.5),
                 ("elem", 3), ("update", 2), ("ttransform", 1.5), ("reset", 0.7), ("override", 2), ("del_prop", 1.5), ("new", 1.2), ("set_u", 1.5)]
        k = src.weighted(kinds)
        i = src.randint(0, len(insts) - 1) if insts else 0
        op = {"k": k, "i": i}
        if k == "new":
            op["cls"] = src.choice(["host", "sub"]) if spec.get("sub") else "host"
            op["kw"] = {"a": src.choice([0, 5, 7])} if src.chance(0.5) else {}
            return op
        inst_is_sub = bool(insts) and type(insts[i]).__name__ == "Sub"
        pnames = [p["name"] for p in spec["props"]] + (["s0"] if inst_is_sub else [])
        if k == "read":
            op["name"] = src.choice(pnames)
        elif k == "override":
            # any property may be assigned: one that is overridable (or has a setter) keeps the value until something it
            # depends on changes, and what depends on IT is discarded at once; one that is neither refuses
            op["name"], op["v"] = src.choice(pnames), src.choice([100, 200, 300])
        elif k == "del_prop":
            # withdrawing an override (or dropping a cached value): the property is back to being computed, and what
            # depends on it must follow
            op["name"] = src.choice(pnames)
        else:
            op["inplace"] = src.chance(0.5)
            bad = src.chance(0.15)
            op["plan"] = ["cb", 1] if src.chance(0.12) else None
            if k in ("set", "del", "with", "update_attr", "reset_attr", "transform"):
                op["name"] = src.choice(["a", "b", "xs", "c", "c"] if k in ("del", "reset_attr", "set", "with") else ["a", "b", "xs"])
                if op["name"] == "xs":
                    op["v"] = "bad" if bad else ["list", [src.choice([0, 3, 9])]]
                    op["fn"] = "zero" if bad else src.choice(["rev", "app9"])
                else:
                    op["v"] = "bad" if bad else src.choice([0, 1, 2, 11])
                    op["fn"] = "tostr" if bad else src.choice(["inc", "neg", "dbl"])
            elif k == "elem":
                op["verb"] = src.choice(["with", "without", "transform"])
                op["v"] = "bad" if bad else src.choice([0, 1, 2, 9])
                op["fn"] = "tostr" if bad else "inc"
            elif k == "update":
                names = src.sample(["a", "b", "xs", "c"], src.randint(1, 2))
                op["kw"] = {n: ("bad" if bad and j == 0 else (["list", [4]] if n == "xs" else src.choice([0, 3, 8])))
                            for j, n in enumerate(names)}
            elif k == "ttransform":
                names = src.sample(["a", "b"], src.randint(1, 2))
                op["kw"] = {n: ("tostr" if bad and j == 0 else "inc") for j, n in enumerate(names)}
            elif k == "set_u":
                op["v"] = src.choice([1, 2, 3])
        return op

    def run_op(self, faults, classes, insts, op):
        """-> (target, Outcome, mutated names, result instance or None)"""
        k = op["k"]

        def val(v):
            if isinstance(v, list) and v and v[0] == "list":
                return list(v[1])
            return v

        def fn(name):
            return make_callback(faults, "fn:" + name, FUNCS[name])

        if k == "new":
            call = lambda: classes[op["cls"]](**op["kw"])  # noqa: E731
            X, mutated = None, []
        else:
            X = insts[op["i"] % len(insts)]
            inp = {"_inplace": True} if op.get("inplace") else {}
            if k == "read":
                call, mutated = (lambda: getattr(X, op["name"])), []
            elif k == "override":
                call, mutated = (lambda: setattr(X, op["name"], op["v"])), [op["name"]]
                op["inplace"] = True
            elif k == "del_prop":
                call, mutated = (lambda: delattr(X, op["name"])), [op["name"]]
                op["inplace"] = True
            elif k == "set":
                call, mutated = (lambda: setattr(X, op["name"], val(op["v"]))), [op["name"]]
                op["inplace"] = True
            elif k == "set_u":
                call, mutated = (lambda: setattr(X, "u", op["v"])), ["u"]
                op["inplace"] = True
            elif k == "del":
                call, mutated = (lambda: delattr(X, op["name"])), [op["name"]]
                op["inplace"] = True
            elif k == "with":
                call, mutated = (lambda: getattr(X, "with_" + op["name"])(val(op["v"]), **inp)), [op["name"]]
            elif k == "update_attr":
                call, mutated = (lambda: getattr(X, "update_" + op["name"])(val(op["v"]), **inp)), [op["name"]]
            elif k == "transform":
                call, mutated = (lambda: getattr(X, "transform_" + op["name"])(fn(op["fn"]), **inp)), [op["name"]]
            elif k == "reset_attr":
                call, mutated = (lambda: getattr(X, "reset_" + op["name"])(**inp)), [op["name"]]
            elif k == "elem":
                if op["verb"] == "with":
                    call = lambda: X.with_x(val(op["v"]), **inp)  # noqa: E731
                elif op["verb"] == "without":
                    call = lambda: X.without_x(0, _by_index=True, **inp)  # noqa: E731
                else:
                    call = lambda: X.transform_x(0, fn(op["fn"]), _by_index=True, **inp)  # noqa: E731
                mutated = ["xs"]
            elif k == "update":
                call, mutated = (lambda: X.update(**{n: val(v) for n, v in op["kw"].items()}, **inp)), list(op["kw"])
            elif k == "ttransform":
                call, mutated = (lambda: X.transform(**{n: fn(f) for n, f in op["kw"].items()}, **inp)), list(op["kw"])
            elif k == "reset":
                call, mutated = (lambda: X.reset(**inp)), ["a", "b", "xs", "c"]
            else:
                raise ValueError(k)
        faults.begin(tuple(op["plan"]) if op.get("plan") else None)
        status, value, exc = "ok", None, None
        try:
            value = call()
        except RecursionError:
            raise
        except Exception as e:
            status, exc = ("fault" if faults.fired else "exc"), e
        faults.end()
        fired = faults.fired
        faults.begin(None)
        return X, Outcome(status, value, exc, fired), mutated

    # -- driver -----------------------------------------------------------------------------------------
    def drive(self, ctx):
        src = ctx.src
        if ctx.replay:
            spec, ops_in = ctx.case_in["spec"], ctx.case_in["ops"]
        else:
            spec, ops_in = self.gen_spec(src), None
        ctx.case.update({"spec": spec, "ops": []})
        faults = Faults()
        faults.begin(None)
        classes = build_classes(spec, faults)
        insts = []
        overrides = {}  # keyed by id(instance): every instance of the run is kept alive so that no id is ever reused
        self._keep = []
        n_ops = len(ops_in) if ctx.replay else src.randint(*self.N_OPS[ctx.tier])
        for idx in range(n_ops):
            if ctx.replay:
                op = ops_in[idx]
            else:
                op = self.gen_op(src, spec, insts) if insts else {"k": "new", "i": 0, "cls": "host", "kw": {}}
            if not insts and op["k"] != "new":
                continue
            ctx.case["ops"].append(op)
            self.step(ctx, spec, faults, classes, insts, overrides, op, idx)

    def step(self, ctx, spec, faults, classes, insts, overrides, op, idx):
        k = op["k"]
        X = insts[op["i"] % len(insts)] if (insts and k != "new") else None
        slots_before = {}
        counts_before = dict(faults.cb_by_name)
        if X is not None:
            for p in props_for(spec, X):
                slots_before[p["name"]] = X.__dict__.get(p["name"], NOSLOT)
        X, out, mutated = self.run_op(faults, classes, insts, op)
        ctx.evaluations += 1
        ctx.log(idx, k, out.summary())
        if k == "new":
            if out.status == "ok" and is_spec_instance(out.value):
                insts.append(out.value)
                self._keep.append(out.value)
                if len(insts) > 4:
                    insts.pop(0)
                self.check_values(ctx, spec, faults, out.value, overrides, op, idx, "new")
            return
        inplace = bool(op.get("inplace"))
        ok = out.status == "ok"
        R = out.value if (ok and is_spec_instance(out.value)) else None
        if k == "override" and ok:
            overrides[(id(X), op["name"])] = op["v"]
        if k == "del_prop" and ok:
            overrides.pop((id(X), op["name"]), None)
        if k == "read":
            if ok:
                want = self.expected(spec, X, op["name"], overrides)
                if out.value != want:
                    declared_in = "host"
                    if spec.get("sub") and any(q["name"] == op["name"] for q in spec["sub"]["props"]):
                        declared_in = "plain_mid_class" if spec["sub"].get("via_mixin") else spec["sub"]["kind"] + "_subclass"
                    ctx.violate({"invariant": "read_equals_recomputation", "entry": "read", "declared_in": declared_in},
                                {"op": op, "got": strip_addr(repr(out.value))[:200], "want": strip_addr(repr(want))[:200]}, idx)
            return
        if k == "override" and not ok:
            if True:
                # a refused assignment (the property is neither overridable nor has a setter) is a failed mutation
                for p in props_for(spec, X):
                    n = p["name"]
                    before = slots_before.get(n, NOSLOT)
                    if before is not NOSLOT and X.__dict__.get(n, NOSLOT) is not before:
                        ctx.violate({"entry": "override", "inplace": True, "outcome": out.status,
                                     "invariant": "unrelated_or_failed_mutation_discards_nothing", "prop_cached": p["cache"]},
                                    {"op": op, "prop": n}, idx)
            return
        closure = self.closure(spec, X, mutated) if ok else []
        kinds = []
        for n in closure:
            pk = next((("cached_prop" if p["cache"] else "uncached_prop") for p in props_for(spec, X) if p["name"] == n), "attr")
            kinds.append(pk)
        ctx.cell(k, inplace, out.status + ":" + str(out.exc_type()), tuple(sorted(set(kinds))), len(closure))
        sig = {"entry": k if k != "elem" else "elem:" + op["verb"], "inplace": inplace, "outcome": out.status}
        # (3) the receiver's cache slots: untouched unless successfully mutated in place
        affected = set(closure) | set(mutated) if (ok and inplace) else set()
        for p in props_for(spec, X):
            n = p["name"]
            before = slots_before.get(n, NOSLOT)
            now = X.__dict__.get(n, NOSLOT)
            if n not in affected and now is not before and not (before is NOSLOT):
                ctx.violate(dict(sig, invariant="unrelated_or_failed_mutation_discards_nothing",
                                 prop_cached=p["cache"]), {"op": op, "prop": n}, idx)
            if n in affected and p["cache"] and now is not NOSLOT and now is before and (id(X), n) not in overrides:
                pass  # judged observably below (the slot may legitimately be refilled by a cascade read)
        if not ok:
            return
        # invalidation discards overrides of affected properties as well (they live in the same slot)
        target = X if inplace else R
        if target is None:
            return
        # (whether a user OVERRIDE of an affected property survives the change is not what the property is about -- an
        # override is not a cached value; the library drops it, since both live in the same slot: the model follows the
        # slot for the overridden property itself and judges everything that depends on it)
        for (iid, n), v in list(overrides.items()):
            if iid != id(X) or (inplace and n not in closure):
                continue
            if n in closure and target.__dict__.get(n, NOSLOT) is not v:
                if inplace:
                    overrides.pop((iid, n), None)
            else:
                overrides[(id(target), n)] = v
        # (2) invalidated_by attributes are back at their default
        for a in spec["attrs"]:
            if a["name"] in closure and a["name"] not in mutated:
                got = target.__dict__.get(a["name"], NOSLOT)
                if a["default"] is None:
                    if got is not NOSLOT:
                        ctx.violate(dict(sig, invariant="invalidated_attribute_back_at_default", attr=a["name"]),
                                    {"op": op, "got": strip_addr(repr(got))[:100], "want": "absent"}, idx)
                    continue
                if got is NOSLOT or abs_value(got) != abs_value(a["default"]):
                    ctx.violate(dict(sig, invariant="invalidated_attribute_back_at_default", attr=a["name"]),
                                {"op": op, "got": strip_addr(repr(got))[:100], "want": a["default"]}, idx)
        # (1) every property read equals the cache-free recomputation
        self.check_values(ctx, spec, faults, target, overrides, op, idx, sig["entry"], sig)
        if target is not X:
            self.check_values(ctx, spec, faults, X, overrides, op, idx, sig["entry"], dict(sig, side="receiver"))
            insts.append(target)
            self._keep.append(target)
            if len(insts) > 4:
                insts.pop(0)

    def check_values(self, ctx, spec, faults, inst, overrides, op, idx, entry, sig=None):
        sig = sig or {"entry": entry}
        for p in props_for(spec, inst):
            try:
                got = getattr(inst, p["name"])
            except Exception as e:
                ctx.violate(dict(sig, invariant="read_never_raises", exc=type(e).__name__), {"op": op, "prop": p["name"]}, idx)
                continue
            ctx.evaluations += 1
            want = self.expected(spec, inst, p["name"], overrides)
            if got != want:
                chain = any(r in _prop_names(spec, inst) for r in p["reads"])
                declared_in = "host"
                if spec.get("sub") and any(q["name"] == p["name"] for q in spec["sub"]["props"]):
                    declared_in = "plain_mid_class" if spec["sub"].get("via_mixin") else spec["sub"]["kind"] + "_subclass"
                ctx.violate(dict(sig, invariant="read_equals_recomputation", prop_cached=p["cache"], through_property=chain,
                                 star="*" in (p["invalidated_by"] or []), declared_in=declared_in),
                            {"op": op, "prop": p["name"], "got": strip_addr(repr(got))[:200], "want": strip_addr(repr(want))[:200],
                             "spec_props": spec["props"], "attrs": [a for a in spec["attrs"] if a.get("invalidated_by")]}, idx)


CHECK = C11
