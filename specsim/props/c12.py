"""
C12 -- spec_property and classproperty follow the override / cache / getter protocol.

mode "prop":  all 16 combinations (overridable, cache, custom setter, custom deleter) on a
              plain class, a spec class without annotation, with annotation, with annotation +
              preparer; sequences over {read, assign v (conforming / ill-typed), delete, change
              underlying state}, with an injected fault in getter / setter / deleter at seeded
              invocations (a getter that raises must not leave a cache entry).
mode "class": classproperty with cache x cache_per_subclass x overridable over a three-class
              hierarchy, accessed through classes and instances.

Every value or exception is compared with an explicit state-machine model.
"""

from ..core import strip_addr
from ..faults import Faults
from ..harness import Check

HOSTS = ["plain", "spec_unmanaged", "spec_annotated", "spec_annotated_prepared", "spec_sub_narrowed"]


def build_prop_class(cfg, faults):
    from spec_classes import spec_class, spec_property

    def getter(self):
        faults.hit("getter")
        v = self.__dict__.get("base", 0)
        return v * 10 if cfg["getter"] == "times10" else str(v)  # "tostr": non-conforming for an int annotation

    def setter(self, v):
        faults.hit("setter")
        self.__dict__["base"] = v

    def deleter(self):
        faults.hit("deleter")
        self.__dict__["base"] = 0

    if cfg.get("style", "ctor") == "ctor":
        p = spec_property(getter, setter if cfg["setter"] else None, deleter if cfg["deleter"] else None,
                          overridable=cfg["overridable"], cache=cfg["cache"])
    else:
        # decorator-with-options form, then the property-style chain; every link rebuilds the descriptor and must
        # carry all options and the accessors attached so far
        p = spec_property(overridable=cfg["overridable"], cache=cfg["cache"])(lambda self: None)
        if cfg["style"] == "renamed":
            # the chain starts from a property that already lives under another name on another class
            # (`prop = Base.other.getter(f)`): the rebuilt descriptor must answer to the name it is stored under
            type("Elsewhere", (), {"other": p})
        links = [("getter", getter)] + ([("setter", setter)] if cfg["setter"] else []) + ([("deleter", deleter)] if cfg["deleter"] else [])
        if cfg["style"] == "chain_rev":
            links.reverse()
        for name, fn in links:
            p = getattr(p, name)(fn)
    ns = {"prop": p, "__module__": "specsim.generated"}
    host = cfg["host"]
    if host in ("spec_annotated", "spec_annotated_prepared"):
        ns["__annotations__"] = {"prop": int}
    else:
        ns["__annotations__"] = {}
    prep_fn = prep_fn_of(cfg)

    def _prepare_prop(self, v):
        faults.hit("preparer")
        return PREP_FNS[prep_fn](v) if isinstance(v, int) and not isinstance(v, bool) else v

    if host == "spec_annotated_prepared":
        ns["_prepare_prop"] = _prepare_prop
    if host == "spec_sub_narrowed":
        # the property lives on a parent that annotates the attribute widely (or not at all); the class under test is a
        # spec subclass that re-annotates it as int (possibly with a preparer of its own) and inherits the getter: results
        # are judged by the annotation and preparer of the class of the instance that is read, whichever class read first
        import typing
        ns["__annotations__"] = {"prop": typing.Union[int, str]} if cfg.get("parent", "wide") == "wide" else {}
        base = spec_class(bootstrap=cfg.get("eager", True))(type("PBase", (), ns))
        sns = {"__module__": "specsim.generated", "__annotations__": {"prop": int}}
        if prep_fn:
            sns["_prepare_prop"] = _prepare_prop
        return spec_class(bootstrap=cfg.get("eager", True))(type("PHost", (base,), sns))
    cls = type("PHost", (), ns)
    if host != "plain":
        cls = spec_class(bootstrap=cfg.get("eager", True))(cls)
    return cls


PREP_FNS = {"abs": abs, "plus100": lambda v: v + 100}  # (the second is not idempotent: a stored value must not meet it twice)


def prep_fn_of(cfg):
    if cfg["host"] == "spec_annotated_prepared":
        return cfg.get("prep_fn") or "abs"
    if cfg["host"] == "spec_sub_narrowed":
        return cfg.get("prep_fn")
    return None


class PropModel:
    def __init__(self, cfg, role="self"):
        self.cfg = cfg
        self.base = 0
        self.slot = _NONE
        self.managed = cfg["host"] in ("spec_annotated", "spec_annotated_prepared", "spec_sub_narrowed")
        self.prep_fn = prep_fn_of(cfg)
        self.types = (int,)
        if role == "parent":
            # an instance of the parent class of the "spec_sub_narrowed" host: same descriptor, other metadata
            self.managed = cfg.get("parent", "wide") == "wide"
            self.prep_fn = None
            self.types = (int, str)

    def prep(self, v):
        if self.prep_fn and isinstance(v, int) and not isinstance(v, bool):
            return PREP_FNS[self.prep_fn](v)
        return v

    def read(self):
        c = self.cfg
        if (c["overridable"] or c["cache"]) and self.slot is not _NONE:
            return ("ok", self.slot)
        v = self.base * 10 if c["getter"] == "times10" else str(self.base)
        if self.managed:
            v = self.prep(v)
            if not isinstance(v, self.types):
                return ("raise", (ValueError, TypeError))
        if c["cache"]:
            self.slot = v
        return ("ok", v)

    def assign(self, v):
        c = self.cfg
        if self.managed:
            pv = self.prep(v)
            if not isinstance(pv, self.types):
                return ("raise", (TypeError, ValueError))
            v = pv
        if c["setter"]:
            self.base = v
            return ("ok", None)
        if c["overridable"]:
            self.slot = v
            return ("ok", None)
        return ("raise", (AttributeError,))

    def delete(self):
        c = self.cfg
        if c["deleter"]:
            self.base = 0
            return ("ok", None)
        if (c["overridable"] or c["cache"]) and self.slot is not _NONE:
            self.slot = _NONE
            return ("ok", None)
        return ("raise", (AttributeError,))


_NONE = object()


def _missing():
    from spec_classes.types import MISSING
    return MISSING


class ClassPropModel:
    def __init__(self, cfg):
        self.cfg = cfg
        self.cache = {}
        self.base = 0

    def key(self, k):
        return k if self.cfg["per_subclass"] else None

    def read(self, k):
        key = self.key(k)
        if key in self.cache:
            return ("ok", self.cache[key])
        v = None if self.base == 3 else (_missing() if self.base == 4 else f"{k}:{self.base}")
        if self.cfg["cache"]:
            self.cache[key] = v
        return ("ok", v)

    def assign(self, k, v):
        if self.cfg.get("csetter"):
            self.base = v
            return ("ok", None)
        if self.cfg["overridable"]:
            self.cache[self.key(k)] = v
            return ("ok", None)
        return ("raise", (AttributeError,))

    def delete(self, k):
        if self.cfg.get("cdeleter"):
            self.base = 0
            return ("ok", None)
        key = self.key(k)
        if key in self.cache:
            del self.cache[key]
            return ("ok", None)
        return ("raise", (AttributeError,))


def build_classprop_hierarchy(cfg, faults):
    from spec_classes import classproperty, spec_class

    state = {"base": 0}

    def getter(cls):
        faults.hit("cgetter")
        if state["base"] == 3:
            return None  # a legitimate value: must be cached / returned like any other
        if state["base"] == 4:
            from spec_classes.types import MISSING
            return MISSING  # classproperty caches whatever the getter returns, the library's own sentinel included
        return f"{cls.__name__}:{state['base']}"

    def csetter(cls, v):
        faults.hit("csetter")
        state["base"] = v

    def cdeleter(cls):
        faults.hit("cdeleter")
        state["base"] = 0

    kw = dict(cache=cfg["cache"], cache_per_subclass=cfg["per_subclass"], overridable=cfg["overridable"])
    if cfg.get("style", "ctor") == "ctor":
        cp = classproperty(getter, csetter if cfg.get("csetter") else None, cdeleter if cfg.get("cdeleter") else None, **kw)
    else:
        cp = classproperty(**kw)(lambda cls: None)
        links = [("getter", getter)] + ([("setter", csetter)] if cfg.get("csetter") else []) + \
            ([("deleter", cdeleter)] if cfg.get("cdeleter") else [])
        if cfg["style"] == "chain_rev":
            links.reverse()
        for name, fn in links:
            cp = getattr(cp, name)(fn)
    A = type("A", (), {"cp": cp, "__module__": "specsim.generated", "__annotations__": {}})
    if cfg["spec"]:
        A = spec_class(bootstrap=True)(A)
    B = type("B", (A,), {"__module__": "specsim.generated"})
    C = type("C", (B,), {"__module__": "specsim.generated"})
    return {"A": A, "B": B, "C": C}, state


class C12(Check):
    PROP = "C12"
    LEVEL = "exploration"
    RUNS = {"quick": 3000, "thorough": 60000}
    N_OPS = {"quick": (4, 12), "thorough": (6, 16)}
    RULE = ("spec_property: 16 option combinations x 5 host kinds (incl. a narrowing subclass whose parent instance shares the "
            "descriptor) x 2 getters x idempotent / non-idempotent preparer x 4 construction styles; classproperty: cache x cache_per_subclass x "
            "overridable x (plain | spec) over a three-class hierarchy; seeded sequences of <= 16 operations over {read, assign "
            "(conforming / ill-typed), delete, change underlying state} with injected faults in getter / setter / deleter / "
            "preparer; every value or exception compared with the state-machine model. evaluations = operations; "
            "distinct_nontrivial = distinct (mode, option combination, host kind, operation, model state before "
            "(slot present?), outcome).")

    def drive(self, ctx):
        src = ctx.src
        if ctx.replay:
            cfg, ops_in = ctx.case_in["cfg"], ctx.case_in["ops"]
        else:
            if src.chance(0.7):
                cfg = {"mode": "prop", "overridable": src.chance(0.5), "cache": src.chance(0.5), "setter": src.chance(0.5),
                       "deleter": src.chance(0.5), "host": src.choice(HOSTS), "getter": src.choice(["times10"] * 4 + ["tostr"]),
                       "eager": src.chance(0.6), "style": src.choice(["ctor", "ctor", "chain", "chain_rev", "renamed"])}
                if cfg["host"] == "spec_annotated_prepared":
                    cfg["prep_fn"] = src.choice(["abs", "plus100"])
                elif cfg["host"] == "spec_sub_narrowed":
                    cfg["parent"] = src.choice(["wide", "unannotated"])
                    cfg["prep_fn"] = src.choice([None, "abs", "plus100"])
                    if src.chance(0.4):
                        cfg["getter"] = "tostr"  # conforming for the parent's annotation, not for the subclass's
            else:
                cfg = {"mode": "class", "cache": src.chance(0.6), "per_subclass": src.chance(0.5),
                       "overridable": src.chance(0.5), "spec": src.chance(0.4), "csetter": src.chance(0.3),
                       "cdeleter": src.chance(0.3), "style": src.choice(["ctor", "ctor", "chain", "chain_rev"])}
            ops_in = None
        ctx.case.update({"cfg": cfg, "ops": []})
        faults = Faults()
        faults.begin(None)
        n_ops = len(ops_in) if ctx.replay else src.randint(*self.N_OPS[ctx.tier])
        if cfg["mode"] == "prop":
            cls = build_prop_class(cfg, faults)
            obj = cls()
            model = PropModel(cfg)
            pobj = pmodel = None
            if cfg["host"] == "spec_sub_narrowed":
                pobj, pmodel = cls.__mro__[1](), PropModel(cfg, role="parent")
            for idx in range(n_ops):
                op = ops_in[idx] if ctx.replay else self.gen_prop_op(src, cfg)
                ctx.case["ops"].append(op)
                if op.get("on") == "parent" and pobj is not None:
                    self.step_prop(ctx, cfg, faults, pobj, pmodel, op, idx)
                else:
                    self.step_prop(ctx, cfg, faults, obj, model, op, idx)
        else:
            classes, state = build_classprop_hierarchy(cfg, faults)
            objs = {k: c() for k, c in classes.items()}
            model = ClassPropModel(cfg)
            for idx in range(n_ops):
                op = ops_in[idx] if ctx.replay else self.gen_class_op(src, cfg)
                ctx.case["ops"].append(op)
                self.step_class(ctx, cfg, faults, classes, objs, state, model, op, idx)

    # -- spec_property ------------------------------------------------------------------------------
    @staticmethod
    def gen_prop_op(src, cfg=None):
        k = src.weighted([("read", 5), ("assign", 3), ("delete", 2), ("base", 2)])
        op = {"k": k}
        if k == "assign":
            # None is a legitimate override value (not for a custom setter, whose target is the numeric base)
            op["v"] = src.choice([7, -3, 0, "bad", 42] + ([] if (cfg or {}).get("setter", True) else [None]))
        elif k == "base":
            op["v"] = src.choice([1, 2, 5])
        op["fault"] = src.chance(0.15)
        if (cfg or {}).get("host") == "spec_sub_narrowed" and src.chance(0.35):
            op["on"] = "parent"  # the same descriptor reached through an instance of the parent class
            if k == "assign" and op["v"] is None:
                op["v"] = "txt"
        return op

    def step_prop(self, ctx, cfg, faults, obj, model, op, idx):
        k = op["k"]
        combo = f"o{int(cfg['overridable'])}c{int(cfg['cache'])}s{int(cfg['setter'])}d{int(cfg['deleter'])}"
        style = cfg.get("style", "ctor")
        slot_before = model.slot is not _NONE
        if k == "base":
            obj.__dict__["base"] = op["v"]
            model.base = op["v"]
            ctx.log(idx, k)
            return
        # model first (on a scratch copy so that an injected fault can be reconciled)
        base0, slot0 = model.base, model.slot
        exp = {"read": model.read, "assign": lambda: model.assign(op["v"]), "delete": model.delete}[k]()
        faults.begin(("cb", 1) if op.get("fault") else None)
        got, exc = None, None
        try:
            if k == "read":
                got = obj.prop
            elif k == "assign":
                obj.prop = op["v"]
            else:
                del obj.prop
        except RecursionError:
            raise
        except Exception as e:
            exc = e
        faults.end()
        fired = faults.fired
        faults.begin(None)
        ctx.evaluations += 1
        outcome = ("fault:" if fired else "") + (type(exc).__name__ if exc else "ok")
        ctx.cell("prop", combo, style, cfg["host"], cfg["getter"], k, slot_before, outcome)
        ctx.log(idx, k, outcome)
        sig = {"mode": "prop", "combo": combo, "style": style, "host": cfg["host"], "op": k, "slot_before": slot_before}
        if op.get("on") == "parent":
            sig["on"] = "parent"
        if fired and exc is not None:
            # a user callback raised: the operation had no effect on the protocol state -- in particular a getter
            # that raises must not leave a cache entry
            model.base, model.slot = base0, slot0
            real_slot = obj.__dict__.get("prop", _NONE)
            if (real_slot is not _NONE) != (slot0 is not _NONE) or (slot0 is not _NONE and real_slot != slot0):
                ctx.violate(dict(sig, invariant="failed_callback_leaves_protocol_state", cb=fired[1]),
                            {"op": op, "slot": strip_addr(repr(real_slot))[:80]}, idx)
            if obj.__dict__.get("base", 0) != base0 and fired[1] in ("getter", "preparer"):
                ctx.violate(dict(sig, invariant="failed_callback_leaves_protocol_state", cb=fired[1], what="base"), {"op": op}, idx)
            obj.__dict__["base"] = model.base
            return
        if exp[0] == "raise":
            if exc is None:
                ctx.violate(dict(sig, invariant="must_raise", want="/".join(c.__name__ for c in exp[1])),
                            {"op": op, "got": strip_addr(repr(got))[:80]}, idx)
            elif not isinstance(exc, exp[1]):
                ctx.violate(dict(sig, invariant="exception_class", got=type(exc).__name__,
                                 want="/".join(c.__name__ for c in exp[1])), {"op": op, "msg": strip_addr(str(exc))[:160]}, idx)
        elif exc is not None:
            ctx.violate(dict(sig, invariant="unexpected_exception", got=type(exc).__name__),
                        {"op": op, "msg": strip_addr(str(exc))[:160]}, idx)
            model.base, model.slot = base0, slot0
        elif k == "read" and (got != exp[1] or type(got) is not type(exp[1])):
            ctx.violate(dict(sig, invariant="read_value"), {"op": op, "got": strip_addr(repr(got))[:80], "want": repr(exp[1])}, idx)
        # protocol state must agree after every operation
        real_slot = obj.__dict__.get("prop", _NONE)
        if (real_slot is _NONE) != (model.slot is _NONE) or (model.slot is not _NONE and real_slot != model.slot):
            ctx.violate(dict(sig, invariant="slot_state"),
                        {"op": op, "real": strip_addr(repr(real_slot))[:80] if real_slot is not _NONE else None,
                         "model": repr(model.slot) if model.slot is not _NONE else None}, idx)
            model.slot = real_slot
        if obj.__dict__.get("base", 0) != model.base:
            ctx.violate(dict(sig, invariant="underlying_state"), {"op": op, "real": obj.__dict__.get("base"), "model": model.base}, idx)
            model.base = obj.__dict__.get("base", 0)

    # -- classproperty -------------------------------------------------------------------------------------
    @staticmethod
    def gen_class_op(src, cfg=None):
        k = src.weighted([("read_cls", 4), ("read_inst", 3), ("assign_inst", 2), ("delete_inst", 2), ("base", 1.5)])
        op = {"k": k, "c": src.choice(["A", "B", "C"])}
        if k == "assign_inst":
            # (on a spec class assigning the MISSING sentinel is a documented no-op of __setattr__: plain hosts only)
            op["v"] = src.choice(["ov1", "ov2", None] + ([] if (cfg or {}).get("spec") else [["sent", "MISSING"]]))
        elif k == "base":
            op["v"] = src.choice([1, 2, 3, 4])
        return op

    def step_class(self, ctx, cfg, faults, classes, objs, state, model, op, idx):
        k, c = op["k"], op["c"]
        combo = (f"c{int(cfg['cache'])}p{int(cfg['per_subclass'])}o{int(cfg['overridable'])}s{int(cfg['spec'])}"
                 f"fs{int(bool(cfg.get('csetter')))}fd{int(bool(cfg.get('cdeleter')))}:{cfg.get('style', 'ctor')}")
        if k == "base":
            state["base"] = op["v"]
            model.base = op["v"]
            ctx.log(idx, k)
            return
        val = _missing() if op.get("v") == ["sent", "MISSING"] else op.get("v")
        cached_before = model.key(c) in model.cache
        exp = {"read_cls": lambda: model.read(c), "read_inst": lambda: model.read(c),
               "assign_inst": lambda: model.assign(c, val), "delete_inst": lambda: model.delete(c)}[k]()
        got, exc = None, None
        try:
            if k == "read_cls":
                got = classes[c].cp
            elif k == "read_inst":
                got = objs[c].cp
            elif k == "assign_inst":
                objs[c].cp = val
            else:
                del objs[c].cp
        except RecursionError:
            raise
        except Exception as e:
            exc = e
        ctx.evaluations += 1
        outcome = type(exc).__name__ if exc else "ok"
        ctx.cell("class", combo, k, c, cached_before, outcome)
        ctx.log(idx, k, c, outcome)
        sig = {"mode": "class", "combo": combo, "op": k, "via": c, "cached_before": cached_before}
        if exp[0] == "raise":
            if exc is None:
                ctx.violate(dict(sig, invariant="must_raise"), {"op": op, "got": strip_addr(repr(got))[:80]}, idx)
            elif not isinstance(exc, exp[1]):
                ctx.violate(dict(sig, invariant="exception_class", got=type(exc).__name__), {"op": op, "msg": strip_addr(str(exc))[:160]}, idx)
        elif exc is not None:
            ctx.violate(dict(sig, invariant="unexpected_exception", got=type(exc).__name__), {"op": op, "msg": strip_addr(str(exc))[:160]}, idx)
        elif k.startswith("read") and got != exp[1]:
            ctx.violate(dict(sig, invariant="read_value"), {"op": op, "got": strip_addr(repr(got))[:80], "want": exp[1]}, idx)
        if state["base"] != model.base:
            ctx.violate(dict(sig, invariant="underlying_state"), {"op": op, "real": repr(state["base"]), "model": repr(model.base)}, idx)
            model.base = state["base"]


CHECK = C12
