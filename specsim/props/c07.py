"""
C07 -- frozen instances are immutable yet still evolvable by copy.

Every class spec is materialised twice: with one class declared frozen=True (the
host -- and thereby its subclass -- or the nested Leaf / KItem class) and without.
The same seeded history drives both worlds.  After every operation:

  * the identity snapshot of every frozen instance that existed before the operation is
    unchanged (the suite never keeps the original, so it cannot see this);
  * assignment, deletion and _inplace=True helper calls on a frozen instance raised, and
    raised FrozenInstanceError whenever the same call succeeds on the non-frozen twin;
  * copy-on-write helpers behave exactly as on the twin: same outcome class, a *distinct*
    result whose abstract state equals the twin's result;
  * nested updates through a non-frozen parent leave the frozen child object unchanged.
"""

import copy as _copy

from ..core import strip_addr
from ..grammar import gen_class_spec
from ..labels import collection_normalised_in_place
from ..history import HistoryCheck, is_inplace, method_kind, state_digest
from ..snap import Snapshot, abs_instance, abs_value, is_spec_instance, mutable_nodes
from ..world import OpGen, SkipOp, World


def frozen_instances(world, which):
    """All live instances of the frozen class(es) reachable from the world's instance pool."""
    out = []
    seen = set()

    def walk(x, depth=0):
        if depth > 6 or id(x) in seen:
            return
        if is_spec_instance(x):
            seen.add(id(x))
            role = world.role_of(x)
            if (which == "host" and role in ("host", "sub")) or role == which:
                out.append(x)
            for v in x.__dict__.values():
                walk(v, depth + 1)
        elif isinstance(x, (list, tuple, set, frozenset)):
            for v in x:
                walk(v, depth + 1)
        elif isinstance(x, dict):
            for v in x.values():
                walk(v, depth + 1)
        elif hasattr(x, "__dict__") and type(x).__name__ in ("KeyedList", "KeyedSet"):
            walk(x.__dict__.get("_dict"), depth + 1)

    for inst in world.insts.values():
        walk(inst)
    return out


class C07(HistoryCheck):
    PROP = "C07"
    LEVEL = "exploration"
    RUNS = {"quick": 1200, "thorough": 25000}
    PROFILE = {"allow_frozen": False, "allow_class_dnc": False, "allow_init_false": False, "allow_post_init_keep": True, "allow_post_copy_assign": True}
    OPGEN = {"p_bad": 0.12, "p_inplace": 0.35, "p_nested_target": 0.3, "exclude_fns": ["missing"], "p_returner": 0.3,
             "weights": {"new": 3, "scalar": 7, "element": 8, "toplevel": 4, "set": 3, "del": 2, "get": 1,
                         "deepcopy": 1.5, "nested": 2}}
    N_OPS = {"quick": (6, 18), "thorough": (8, 30)}
    RULE = ("twin histories: the same seeded operations run against a world where one class (host+subclass, Leaf or KItem) "
            "is frozen and against its non-frozen twin; oracles: frozen instances' identity snapshots never move, in-place "
            "operations on frozen instances raise FrozenInstanceError when the twin succeeds, copy-on-write results are distinct "
            "objects with the twin's abstract state. evaluations = operations compared; distinct_nontrivial = distinct (frozen "
            "class, operation label, attribute kind, in-place flag, frozen outcome, twin outcome) with at least one live frozen "
            "instance.")

    def make_world(self, ctx, spec):
        return World(_frozen(spec, ctx.case["frozen_class"]))

    def gen_spec(self, ctx):
        spec = gen_class_spec(ctx.src, self.PROFILE)
        if (spec.get("sub") or {}).get("kind") == "spec" and ctx.src.chance(0.45):
            # frozen declared only on a spec subclass: inherited (parent-declared) attributes and helpers then serve a
            # frozen class although the class that declared them is not
            ctx.case["frozen_class"] = "sub"
        return spec

    def drive(self, ctx):
        if ctx.replay:
            ctx.case["frozen_class"] = ctx.case_in["frozen_class"]
        else:
            ctx.case["frozen_class"] = ctx.src.weighted([("host", 6), ("leaf", 2), ("kitem", 2)])
        super().drive(ctx)

    def begin(self, ctx, world):
        self.twin = World(ctx.case["spec"])  # non-frozen twin
        self.which = ctx.case["frozen_class"]
        self.diverged = False

    def step(self, ctx, world, op, idx):
        twin = self.twin
        which = self.which
        fr_before = frozen_instances(world, which)
        cache_slots = [p["name"] for p in world.spec["host"].get("props", []) if p.get("cache")]
        snap_before = Snapshot([fr_before], ignore_attrs=cache_slots)
        if not getattr(self, "diverged", False):
            # twin comparison is only meaningful from equal abstract pre-states
            if state_digest(world) != state_digest(twin):
                self.diverged = True
                ctx.bump("diverged_runs")
        prep = world.prepare(op)
        try:
            tprep = twin.prepare(op)
        except SkipOp:
            tprep = None
        out = world.run(prep)
        twin_pre = abs_value(tprep.target) if tprep is not None and tprep.target is not None else None
        tout = twin.run(tprep) if tprep is not None else None
        twin_noop = tprep is not None and tprep.target is not None and abs_value(tprep.target) == twin_pre
        world.commit(op, prep, out)
        if tprep is not None:
            twin.commit(op, tprep, tout)
            # keep the two instance pools aligned (same ids)
            for k in list(twin.insts):
                if k not in world.insts:
                    del twin.insts[k]
            for k in list(world.insts):
                if k not in twin.insts:
                    del world.insts[k]
        snap_after = Snapshot([fr_before], ignore_attrs=cache_slots)
        ctx.evaluations += 1
        mk = method_kind(world, op)
        label = op["op"] if not mk else f"{mk[0]}:{mk[1]}"
        if op["op"] == "set" and op["on"].get("path"):
            label = "nested_set"
        akind = mk[3] if mk else None
        target = prep.target
        target_frozen = target is not None and is_spec_instance(target) and (
            (which == "host" and world.role_of(target) in ("host", "sub")) or world.role_of(target) == which)
        inplace = is_inplace(op) or op["op"] in ("set", "del")
        if fr_before:
            ctx.cell(which, label, akind, inplace, out.status + ":" + str(out.exc_type()),
                     (tout.status + ":" + str(tout.exc_type())) if tout else "-")
        sig = {"frozen_class": which, "op": label, "attr_kind": akind, "inplace": inplace}
        # (1) frozen instances never change.  A direct write to a nested value that is itself an instance of a
        #     non-frozen class goes through that value's own API and is none of the frozen instance's business.
        direct_nested_nonfrozen = bool(op["op"] in ("set", "del") and op["on"].get("path") and not target_frozen)
        if not snap_before.same(snap_after) and not direct_nested_nonfrozen:
            via = "collection_normalised_in_place" if collection_normalised_in_place(
                world, op, out, snap_before, snap_after) else "-"
            ctx.violate(dict(sig, invariant="frozen_instance_unchanged", outcome=out.status, via=via),
                        {"op": op, "outcome": out.summary(), "diff": snap_before.diff(snap_after)}, idx)
        if tout is None or self.diverged:
            ctx.log(op["id"], out.summary(), state_digest(world))
            return out
        noop = op.get("kw", {}).get("_if") is False
        # (2) in-place on a frozen target must raise
        if target_frozen and inplace and not noop and op["op"] != "get":
            if out.status == "ok" and not self._sentinel_noop(op) and not (tout.status == "ok" and twin_noop):
                ctx.violate(dict(sig, invariant="inplace_on_frozen_raises", got="ok"), {"op": op}, idx)
            elif out.status == "exc" and tout.status == "ok" and out.exc_type() != "FrozenInstanceError":
                ctx.violate(dict(sig, invariant="inplace_on_frozen_raises", got=out.exc_type()),
                            {"op": op, "msg": strip_addr(str(out.exc))[:200]}, idx)
        # (3) everything else behaves exactly like the twin
        elif not (target_frozen and inplace):
            if out.status != tout.status or out.exc_type() != tout.exc_type():
                ctx.violate(dict(sig, invariant="same_outcome_as_twin", got=f"{out.status}:{out.exc_type()}",
                                 want=f"{tout.status}:{tout.exc_type()}"),
                            {"op": op, "msg": strip_addr(str(out.exc))[:200] if out.exc else None}, idx)
            elif out.status == "ok":
                a, b = out.value, tout.value
                ga = abs_instance(a) if is_spec_instance(a) else abs_value(a)
                gb = abs_instance(b) if is_spec_instance(b) else abs_value(b)
                if ga != gb:
                    ctx.violate(dict(sig, invariant="same_result_as_twin"),
                                {"op": op, "got": strip_addr(repr(ga))[:300], "want": strip_addr(repr(gb))[:300]}, idx)
                if (mk and not inplace and not noop and target_frozen and is_spec_instance(a)
                        and (a is target) != (b is tprep.target)):
                    ctx.violate(dict(sig, invariant="copy_is_distinct_object"), {"op": op}, idx)
        # world states must stay aligned (abstractly)
        ctx.log(op["id"], out.summary(), tout.summary(), state_digest(world))
        return out

    @staticmethod
    def _sentinel_noop(op):
        for a in list(op.get("args", [])) + list(op.get("kw", {}).values()) + [op.get("v")]:
            if isinstance(a, list) and a and a[0] == "sent":
                return True
        return False


def _frozen(spec, which):
    s = _copy.deepcopy(spec)
    if which == "host":
        s["host"]["options"]["frozen"] = True
    elif which == "sub":
        s["sub"].setdefault("options", {})["frozen"] = True
    else:
        s[which]["frozen"] = True
    return s


CHECK = C07
