"""
C02 -- derived copies share no mutable state with the original (do_not_copy excepted).

After every copy-on-write helper or deepcopy in a seeded history, with receiver X,
result R and freshly built arguments A:

  static   mutable_nodes(X) & mutable_nodes(R) must be a subset of mutable_nodes(A) plus
           the values of do_not_copy attributes; every do_not_copy attribute (not targeted
           by the call, not subject to invalidation) is carried by identity;
  dynamic  a seeded tail of <= 6 in-place API operations (some cut short by an injected
           callback fault, direct container mutations included) is applied to R and the
           snapshot of X must not move; then the sides swap.
"""

import json

from ..grammar import ALL_KINDS
from ..history import HistoryCheck, is_inplace, method_kind, state_digest
from ..snap import Snapshot, is_spec_instance, mutable_nodes
from ..world import OpGen, SkipOp


def dnc_names(world, role):
    """Attributes declared do_not_copy for instances of `role`: Attr(do_not_copy=True) flags plus the decorator option of
    the class that decides -- the parent's for the parent and for a plain subclass, the spec subclass's own for its
    instances (the grammar always repeats flagged attributes there)."""
    info = world.info(role)
    names = {n for n, a in info.items() if a.get("flags", {}).get("do_not_copy")}
    sub = world.spec.get("sub") or {}
    if role == "sub" and sub.get("kind") == "spec":
        opt = (sub.get("options") or {}).get("do_not_copy")
    else:
        opt = (world.spec["host"].get("options") or {}).get("do_not_copy")
    if isinstance(opt, list):
        names.update(opt)
    return names


def locate(x, node, depth=0, path="self"):
    """Human-readable path of `node` inside the spec instance x (first hit)."""
    if depth > 6:
        return None
    if x is node:
        return path
    if is_spec_instance(x):
        for k, v in x.__dict__.items():
            r = locate(v, node, depth + 1, f"{path}.{k}")
            if r:
                return r
    elif isinstance(x, (list, tuple)):
        for i, v in enumerate(x):
            r = locate(v, node, depth + 1, f"{path}[{i}]")
            if r:
                return r
    elif isinstance(x, dict):
        for k, v in x.items():
            r = locate(v, node, depth + 1, f"{path}[{k!r}]")
            if r:
                return r
    elif isinstance(x, (set, frozenset)):
        for v in x:
            r = locate(v, node, depth + 1, f"{path}{{}}")
            if r:
                return r
    elif hasattr(x, "__dict__"):
        for k, v in x.__dict__.items():
            r = locate(v, node, depth + 1, f"{path}.{k}")
            if r:
                return r
    return None


class C02(HistoryCheck):
    PROP = "C02"
    LEVEL = "exploration"
    RUNS = {"quick": 1500, "thorough": 30000}
    # init=False attributes are never initialised on instances, so instance.attr *is* the class-level default
    # object and in-place element helpers edit it for every instance (C08 territory, and excluded there too).
    PROFILE = {"allow_frozen": False, "allow_class_dnc": False, "allow_parent_class_dnc": True, "allow_init_false": False, "allow_mutable_props": True, "allow_foreign_defaults": True,
               "kinds": ALL_KINDS + ["any", "list_optleaf"]}
    # untyped attributes holding spec instances inside immutable containers (a tuple is hashable, not immutable in depth)
    ANY_EXTRA = [["tuple", [["leaf", {"p": 2}], 1]], ["tuple", [["list", [["leaf", {}]]], "s"]],
                 ["list", [["leaf", {"q": "z"}], ["tuple", [["leaf", {"p": 5}]]]]], ["dict", [["a", ["tuple", [["kitem", {"k": "a"}]]]]]]]
    # the property quantifies over "transforms that return new objects": functions handing back their input are out
    OPGEN = {"p_bad": 0.1, "p_inplace": 0.2, "exclude_fns": ["ident", "missing"], "p_alias": 0.4, "any_extra": ANY_EXTRA,
             "weights": {"new": 2, "scalar": 6, "element": 8, "toplevel": 3, "set": 3, "del": 1, "get": 3,
                         "deepcopy": 2.5, "mutate": 0}}
    N_OPS = {"quick": (5, 14), "thorough": (8, 24)}
    RULE = ("after each copy-on-write helper / deepcopy of a seeded history: identity-graph intersection of receiver and "
            "result minus argument graph minus do_not_copy values must be empty (static), and a tail of <=6 in-place "
            "operations (API writes at any depth, direct container mutation, some aborted by an injected callback fault) on "
            "either side must leave the snapshot of the other side unchanged (dynamic); a 'copy' that is the receiver itself is "
            "reported unless the call was switched off (_if=False / UNCHANGED); transforms include ones that rebuild a container out "
            "of the elements they were handed. evaluations = copies checked + tail "
            "operations; distinct_nontrivial = distinct (helper family, verb, attribute kind, tail op kind, outcome) where the "
            "copied instance held at least one mutable node.")

    def step(self, ctx, world, op, idx):
        prep = world.prepare(op)
        out = world.run(prep)
        world.commit(op, prep, out)
        ctx.log(op["id"], out.summary(), state_digest(world))
        mk = method_kind(world, op)
        is_copy = (op["op"] == "deepcopy") or (mk is not None and not is_inplace(op))
        if not (is_copy and out.status == "ok" and is_spec_instance(out.value)):
            return out
        X, R = prep.target, out.value
        if R is X and world.role_of(X) in ("host", "sub") and op.get("kw", {}).get("_if", True) is not False \
                and '["sent", "UNCHANGED"]' not in json.dumps([op.get("args", []), op.get("kw", {})]):
            # the "copy" is the receiver itself: everything is shared (only a call that is switched off -- by _if=False or
            # by the UNCHANGED sentinel, which both mean "do nothing" -- hands the receiver back; classes declared
            # do_not_copy as a whole are outside this check's grammar)
            fam0, verb0, _, akind0 = mk if mk else ("deepcopy", "deepcopy", None, None)
            ctx.evaluations += 1
            ctx.violate({"invariant": "no_shared_mutable_state", "family": fam0, "verb": verb0, "attr_kind": akind0,
                         "node_type": "the_receiver_itself"}, {"op": op}, idx)
            return out
        if R is X or world.role_of(X) not in ("host", "sub") or world.role_of(R) != world.role_of(X):
            return out
        role = world.role_of(X)
        info = world.info(role)
        ctx.evaluations += 1
        ctx.bump("copies")
        fam, verb, aname, akind = mk if mk else ("deepcopy", "deepcopy", None, None)
        dnc = dnc_names(world, role)
        argobjs = list(prep.args[1:] if op["op"] == "deepcopy" else prep.args) + list(prep.kw.values())
        nx, nr = mutable_nodes([X]), mutable_nodes([R])
        na = mutable_nodes([argobjs])
        nd = mutable_nodes([[X.__dict__[a] for a in dnc if a in X.__dict__]])
        shared = [k for k in nx if k in nr and k not in na and k not in nd]
        if nx:
            ctx.cell("static", fam, verb, akind, len(shared) == 0)
        if shared:
            node = nx[shared[0]]
            ctx.violate({"invariant": "no_shared_mutable_state", "family": fam, "verb": verb, "attr_kind": akind,
                         "node_type": type(node).__name__},
                        {"op": op, "where_in_receiver": locate(X, node), "where_in_result": locate(R, node)}, idx)
        # do_not_copy attributes are carried by identity
        touched = set(op.get("kw", {})) | ({aname} if aname else set())
        if fam == "toplevel" and verb == "reset":
            touched |= set(info)
        for a in sorted(dnc):
            if a in touched or info.get(a, {}).get("flags", {}).get("invalidated_by"):
                continue
            if a in X.__dict__:
                v = X.__dict__[a]
                if a not in R.__dict__:
                    ctx.violate({"invariant": "do_not_copy_carried", "family": fam, "verb": verb, "effect": "dropped"},
                                {"op": op, "attr": a}, idx)
                elif R.__dict__[a] is not v and mutable_nodes([v]):
                    ctx.violate({"invariant": "do_not_copy_carried", "family": fam, "verb": verb, "effect": "duplicated",
                                 "attr_kind": info[a]["kind"]}, {"op": op, "attr": a}, idx)
        # dynamic oracle ------------------------------------------------------------------
        xid = op["on"]["i"]
        rid = op["id"]
        if rid not in world.insts or world.insts[rid] is not R or op["on"].get("path"):
            return out
        if not ctx.replay:
            gen = OpGen(ctx.src, world, {"p_bad": 0.1, "p_inplace": 1.0, "p_if_false": 0.0, "exclude_fns": ["ident", "missing", "rev", "tolist"],
                                         "weights": {"scalar": 4, "element": 8, "toplevel": 2, "set": 3, "del": 1,
                                                     "nested": 4, "mutate": 3}})
            op["tails"] = []
        tails_in = op.get("tails") if ctx.replay else None
        for side_i, (mut_id, other) in enumerate(((rid, X), (xid, R))):
            n_tail = len(tails_in[side_i]) if ctx.replay else ctx.src.randint(1, 6 if ctx.tier == "thorough" else 4)
            if not ctx.replay:
                op["tails"].append([])
            before = Snapshot([other])
            for t in range(n_tail):
                if ctx.replay:
                    top = tails_in[side_i][t]
                else:
                    top = gen.gen(only=["scalar", "element", "toplevel", "set", "del", "nested", "mutate"],
                                  inplace=True, iid=mut_id, skip_attrs=dnc)
                    top["plan"] = None if ctx.src.chance(0.7) else ["cb", ctx.src.randint(1, 3)]
                    op["tails"][side_i].append(top)
                try:
                    tprep = world.prepare(top)
                except SkipOp:
                    continue
                tout = world.run(tprep, tuple(top["plan"]) if top.get("plan") else None)
                ctx.evaluations += 1
                if tout.fired:
                    ctx.bump("fired_cb")
                after = Snapshot([other])
                tk = top["op"] if top["op"] != "call" else "call:" + top["m"].split("_")[0]
                ctx.cell("dynamic", fam, verb, akind, tk, tout.status)
                if not before.same(after):
                    ctx.violate({"invariant": "mutation_not_visible_through_other", "family": fam, "verb": verb,
                                 "attr_kind": akind, "mutated": "result" if side_i == 0 else "receiver",
                                 "tail_op": tk},
                                {"op": op, "tail": top, "diff": before.diff(after)}, idx)
                    before = after
        ctx.log("tails", state_digest(world))
        return out


CHECK = C02
