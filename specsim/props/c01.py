"""
C01 -- copy-on-write helpers never change the receiver (nor the arguments).

Fault enumeration: for a probed (state, helper call without _inplace) the call is
executed fault-free, then with an InjectedFault at every callback invocation index
j = 1, 2, ... (until a re-execution completes without reaching j), then with a line
abort (SimInterrupt / SimMemoryError) at library line events k.  After *every*
execution -- returned or raised -- the identity snapshot of (all live instances,
the argument objects) must be unchanged.
"""

from ..history import HistoryCheck, is_inplace, method_kind, state_digest
from ..labels import collection_normalised_in_place
from ..snap import Snapshot
from ..world import SkipOp


def line_ks(n, tier, src_choice=None):
    if n <= 0:
        return []
    if tier == "thorough":
        return "all"
    ks = set([1, 2, 3, n, n - 1, n - 2])
    m = 18
    for i in range(m):
        ks.add(1 + (i * (n - 1)) // max(1, m - 1))
    return sorted(k for k in ks if 1 <= k <= n)


class C01(HistoryCheck):
    PROP = "C01"
    LEVEL = "fault_enumeration"
    RUNS = {"quick": 1200, "thorough": 12000}
    PROFILE = {"allow_frozen": False, "allow_class_dnc": False, "allow_parent_class_dnc": True, "allow_lookup_preparer": True}
    OPGEN = {"p_bad": 0.25, "p_inplace": 0.25, "p_returner": 0.35, "p_user_keyfn": 0.3}
    N_OPS = {"quick": (6, 16), "thorough": (8, 25)}
    P_PROBE = {"quick": 0.1, "thorough": 0.25}
    RULE = ("a probe = (reachable receiver state from a seeded history, generated helper called without "
            "_inplace, argument tuple incl. ill-formed ones); executed fault-free, with an InjectedFault at "
            "every callback invocation index, and with line aborts at library line events (quick: <=24 "
            "stratified k per probe, thorough: every k until the injection no longer fires). "
            "distinct_nontrivial = distinct (helper family, verb, attribute kind, fault kind, fault site or "
            "callback name / outcome class) among executions in which at least one library line of the helper ran "
            "past the _if guard.")

    def next_op(self, ctx, world, gen):
        op = gen.gen()
        mk = method_kind(world, op)
        if mk and not is_inplace(op) and ctx.src.chance(self.P_PROBE[ctx.tier]):
            op["probe"] = {"kind": ctx.src.choice(["interrupt", "interrupt", "memory"]),
                           "lines": "all" if ctx.tier == "thorough" else "strat"}
        return op

    def step(self, ctx, world, op, idx):
        if op.get("probe") and method_kind(world, op) and not is_inplace(op):
            self.probe(ctx, world, op, idx)
        mk = method_kind(world, op)
        if mk and not is_inplace(op):
            # the execution that enters the history is judged too (fault-free): every copy-on-write call of every
            # run is an evaluation, not only the probed ones
            out = self._exec_checked(ctx, world, op, idx, mk, None, commit=True)
        else:
            prep, out = world.execute(op)
        ctx.log(op["id"], out.summary(), state_digest(world))
        return out

    # ------------------------------------------------------------------
    def _exec_checked(self, ctx, world, op, idx, mk, plan, count_lines=False, commit=False):
        prep = world.prepare(op)
        recv = prep.target
        others = [v for v in world.insts.values() if v is not recv]
        argobjs = list(prep.args) + list(prep.kw.values())
        before = Snapshot([recv, argobjs, others])
        out = world.run(prep, plan, count_lines=count_lines)
        after = Snapshot([recv, argobjs, others])
        ctx.evaluations += 1
        fam, verb, aname, akind = mk
        fk = "none" if plan is None else plan[0]
        site = "-"
        if out.fired:
            site = out.fired[1].split("#")[0] if out.fired[0] == "cb" else ":".join(out.fired[1].split(":")[:2])
            ctx.bump("fired_" + out.fired[0])
        ctx.cell(fam, verb, akind, fk, site if out.fired else out.status + ":" + str(out.exc_type()))
        if not before.same(after):
            what = self._classify(before, after, recv, argobjs, others)
            via = "-"
            if what in ("args", "receiver") and collection_normalised_in_place(world, op, out, before, after):
                via = "collection_normalised_in_place"
            ctx.violate(
                {"invariant": "unchanged_" + what, "family": fam, "verb": verb, "attr_kind": akind,
                 "fault": fk, "site": site, "status": out.status, "via": via},
                {"op": op, "plan": plan, "outcome": out.summary(), "diff": before.diff(after),
                 "stack": out.fired[3][:12] if out.fired else None},
                step=idx,
            )
        if commit:
            world.commit(op, prep, out)
        return out

    @staticmethod
    def _classify(before, after, recv, argobjs, others):
        # Roots were [recv, argobjs, others]; compare per-root reachable descriptions.
        def sub(snap, root_index):
            # collect node indices reachable from one root
            seen, stack = set(), [snap.roots[root_index]]
            out = []
            while stack:
                r = stack.pop()
                if not isinstance(r, list):
                    continue
                if r and r[0] == "N":
                    if r[1] in seen:
                        continue
                    seen.add(r[1])
                    out.append(snap.desc[r[1]])
                    stack.append(snap.desc[r[1]][2])
                else:
                    stack.extend(x for x in r if isinstance(x, list))
            return sorted(out, key=repr), snap.roots[root_index]

        for i, nm in enumerate(("receiver", "args", "others")):
            if sub(before, i) != sub(after, i):
                return nm
        return "graph"

    def probe(self, ctx, world, op, idx):
        mk = method_kind(world, op)
        ctx.bump("probes")
        # (1) fault-free, counting lines
        out0 = self._exec_checked(ctx, world, op, idx, mk, None, count_lines=True)
        n_lines = out0.lines
        n_cb = len(out0.cb_log)
        ctx.bump("steps", n_lines)
        # (2) every callback invocation index
        j = 1
        while j <= n_cb + 3:
            out = self._exec_checked(ctx, world, op, idx, mk, ("cb", j))
            if not out.fired:
                break
            j += 1
        # (3) line aborts
        kind = op["probe"].get("kind", "interrupt")
        mode = op["probe"].get("lines", "strat")
        if mode == "all":
            k = 1
            while k <= 5000:
                out = self._exec_checked(ctx, world, op, idx, mk, ("line", k, kind))
                if not out.fired:
                    break
                k += 1
        else:
            for k in line_ks(n_lines, "quick"):
                out = self._exec_checked(ctx, world, op, idx, mk, ("line", k, kind))


CHECK = C01
