"""
C20 -- copying leaves process-global state untouched and is safe across threads.

Invariant, checked at every quiescent point (no copy in flight in any simulated
thread): dict(copyreg.dispatch_table) equals the snapshot taken before the run.

* mode "seq": histories of operations that copy (construction with mutable
  defaults, copy-on-write helpers, deepcopy of module-bearing values nested to
  depth 3, reset/del); probed operations are re-executed with an InjectedFault at
  every callback invocation index and with a line abort at library line events.
* mode "threads": 2-3 simulated threads each deep-copy module-bearing values under
  the seeded scheduler; every copy must succeed in every thread, preserve modules
  by identity, and the table invariant must hold when all threads are done.
"""

import copy
import copyreg
import random
import types

from ..core import strip_addr
from ..grammar import ALL_KINDS, gen_class_spec, good_value
from ..history import HistoryCheck, state_digest
from ..sched import Sched, make_policy, policy_to_json
from ..snap import abs_value
from ..world import OpGen, SkipOp, World
from .c01 import line_ks
from .c19 import patch_locks, unpatch_locks


def _user_module_reductor(module):
    import importlib

    return (importlib.import_module, (module.__name__,))


def table_snapshot():
    return {k: v for k, v in copyreg.dispatch_table.items()}


def table_diff(base):
    cur = copyreg.dispatch_table
    added = [getattr(k, "__name__", str(k)) for k in cur if k not in base]
    removed = [getattr(k, "__name__", str(k)) for k in base if k not in cur]
    changed = [getattr(k, "__name__", str(k)) for k in cur if k in base and cur[k] is not base[k]]
    return added, removed, changed


def repair_globals(base):
    for k in list(copyreg.dispatch_table):
        if k not in base:
            del copyreg.dispatch_table[k]
    for k, v in base.items():
        copyreg.dispatch_table[k] = v
    from spec_classes.utils.mutation import _modules_copyable

    inst = _modules_copyable.__dict__.get("__instance__")
    if inst is not None:
        inst.refcount = 0
        inst.patched_table = False


def modules_in(x, out=None, depth=0):
    """ids of module objects reachable in a value (identity check after copying)."""
    out = [] if out is None else out
    if depth > 8:
        return out
    if isinstance(x, types.ModuleType):
        out.append(x.__name__)
    elif isinstance(x, (list, tuple, set, frozenset)):
        for e in x:
            modules_in(e, out, depth + 1)
    elif isinstance(x, dict):
        for k, v in x.items():
            modules_in(v, out, depth + 1)
    elif hasattr(x, "__dict__") and not isinstance(x, type) and not callable(x):
        for v in x.__dict__.values():
            modules_in(v, out, depth + 1)
    return out


THREAD_ACTIONS = ["deepcopy_inst", "protect_value", "with_payload", "construct", "deepcopy_value", "failing_copy"]


def do_copy_action(world, shared, act):
    """Executed by simulated threads; returns an address-free summary incl. module identities."""
    from spec_classes.utils.mutation import protect_via_deepcopy

    kind = act["kind"]
    if kind == "deepcopy_inst":
        src = shared["insts"][act["i"] % len(shared["insts"])]
        res = copy.deepcopy(src)
    elif kind == "protect_value":
        src = shared["values"][act["i"] % len(shared["values"])]
        res = protect_via_deepcopy(src)
    elif kind == "deepcopy_value":
        # instances nested in plain containers (modules only occur *inside* spec instances here: a bare
        # module in a plain list is not copyable by copy.deepcopy and is none of the library's business)
        n = len(shared["insts"])
        src = [shared["insts"][act["i"] % n], {"k": [shared["insts"][(act["i"] + 1) % n]]}]
        res = copy.deepcopy(src)
    elif kind == "failing_copy":
        # a copy that user code aborts (the value refuses to be copied): it raises here, in this thread only, and
        # must not disturb the copies other threads have in flight
        from ..snap import Cancelled
        bomb = world.build(["bomb", "signal"] if act["i"] % 3 == 0 else ["bomb"], False)
        try:
            protect_via_deepcopy([1, bomb] if act["i"] % 2 else {"k": [bomb]})
        except (ValueError, Cancelled) as e:
            return {"kind": kind, "raised": type(e).__name__}
        return {"kind": kind, "raised": None}
    elif kind == "with_payload":
        src = shared["insts"][act["i"] % len(shared["insts"])]
        res = getattr(src, "with_" + act["attr"])(world.build(act["v"], False))
        return {"kind": kind, "mods": modules_in(res), "abs": abs_value(res)}
    elif kind == "construct":
        v = world.build(act["v"], False)
        res = world.classes["host"](**{act["attr"]: v})
        return {"kind": kind, "mods": modules_in(res), "abs": abs_value(res)}
    else:
        raise ValueError(kind)
    # modules must be preserved by identity: same module names in the same traversal order
    return {"kind": kind, "mods": modules_in(res), "mods_src": modules_in(src), "abs": abs_value(res),
            "abs_src": abs_value(src), "distinct": res is not src}


class C20(HistoryCheck):
    PROP = "C20"
    LEVEL = "fault_enumeration"
    RUNS = {"quick": 3000, "thorough": 40000}
    PROFILE = {"kinds": ALL_KINDS + ["any", "any"], "force_kinds": ["any"], "allow_frozen": False,
               "allow_class_dnc": False, "n_attrs": (2, 5)}
    # values in which a nested protected copy fails and is recovered from, with a module still to come
    ANY_EXTRA = [["list", [["catchbomb", "signal"], ["mod", "os"]]],
                 ["list", [["catchbomb"], ["mod", "os"]]],
                 ["list", [["catchbomb"], ["dict", [["m", ["mod", "sys"]]]]]],
                 ["dict", [["a", ["catchbomb"]], ["b", ["list", [["mod", "math"]]]]]]]
    OPGEN = {"p_bad": 0.15, "p_inplace": 0.3, "any_extra": ANY_EXTRA,
             "weights": {"new": 3, "scalar": 6, "element": 5, "toplevel": 3, "set": 2, "del": 2, "get": 0.3,
                         "deepcopy": 4}}
    N_OPS = {"quick": (5, 14), "thorough": (8, 24)}
    P_PROBE = {"quick": 0.4, "thorough": 0.6}
    P_THREADS = 0.75
    RULE = ("mode seq: every operation of a seeded history of copying operations ends at a quiescent point where "
            "copyreg.dispatch_table is compared with its pre-run snapshot; probed operations are re-executed with an "
            "InjectedFault at every callback invocation index and a line abort at library line events (quick <=24 "
            "stratified, thorough all). mode threads: 2-3 simulated threads each perform 1-3 copies of module-bearing "
            "values (or one that user code aborts; half of the runs start before the copy-protection singleton exists) under one "
            "seeded schedule (bounded pre-emptions restricted to the copy-protection code, PCT, random, lock-operation-only, "
            "per-thread site targets); "
            "oracle: all copies succeed, modules preserved by identity, table restored at the end. evaluations = executions "
            "(seq) + schedules (threads). distinct_nontrivial = distinct (mode, op kind, fault kind, fault site / callback) "
            "for seq and (action tuple, pre-emption sites) for threads, among executions that actually entered the "
            "copy-protection context.")
    COMPONENTS_STUBBED = HistoryCheck.COMPONENTS_STUBBED + [
        "OS thread scheduler (baton passing; pre-emption at sys.settrace line events)",
        "threading.RLock as seen by spec_classes (cooperative SimRLock)"]

    # -- dispatch -----------------------------------------------------------------------
    def drive(self, ctx):
        if ctx.replay:
            mode = ctx.case_in.get("mode", "seq")
        else:
            mode = "threads" if ctx.src.chance(self.P_THREADS) else "seq"
        ctx.case["mode"] = mode
        # "exactly the entries it held before the library was used": in one run out of four the application has
        # registered its own way of reducing modules beforehand (the usual recipe to pickle modules by name)
        pre = ctx.case_in.get("preregistered", False) if ctx.replay else ctx.src.chance(0.15)
        ctx.case["preregistered"] = pre
        clean = table_snapshot()
        if pre:
            copyreg.dispatch_table[types.ModuleType] = _user_module_reductor
        self.base = table_snapshot()
        try:
            if mode == "seq":
                super().drive(ctx)
            else:
                self.drive_threads(ctx)
        finally:
            repair_globals(clean)  # (also undoes a registration made before or in the middle of the run)

    # -- sequential part -----------------------------------------------------------------
    def next_op(self, ctx, world, gen):
        if ctx.src.chance(0.04):
            # at a quiescent point the application registers (or withdraws) its own way of reducing modules: from then
            # on THAT is what the table must hold whenever no copy is in progress
            return {"op": "register", "id": world.fresh_id(), "on_off": ctx.src.choice(["on", "on", "off"])}
        op = gen.gen()
        if op["op"] == "deepcopy" and ctx.src.chance(0.6):
            op["wrap"] = ctx.src.randint(1, 3)  # deepcopy of an instance nested in containers to depth 3
        if op["op"] in ("new", "call", "deepcopy", "del", "set") and ctx.src.chance(self.P_PROBE[ctx.tier]):
            # (an in-place transform is re-applied by every re-execution of the probe -- `tolist` nests the value one level
            # deeper each time --: such a call is probed at <= 24 stratified lines in either tier, or a later copy of the
            # value exceeds the interpreter's recursion limit; found by the thorough run, 1 run in 27 000)
            growing = op["op"] == "call" and op["m"].startswith("transform") and op.get("kw", {}).get("_inplace")
            op["probe"] = {"kind": ctx.src.choice(["interrupt", "interrupt", "memory"]),
                           "lines": "all" if (ctx.tier == "thorough" and not growing) else "strat"}
        return op

    def _exec(self, ctx, world, op, idx, plan, count_lines=False, commit=False):
        try:
            prep = world.prepare(op)
        except SkipOp:
            raise
        except Exception as e:
            # building the (conforming) argument objects already failed inside the library's copy machinery
            ctx.violate({"invariant": "copy_succeeds", "mode": "seq", "op": "build_arguments", "exc": type(e).__name__},
                        {"op": op, "msg": strip_addr(str(e))[:200]}, step=idx)
            repair_globals(self.base)
            raise SkipOp("argument construction failed")
        out = world.run(prep, plan, count_lines=count_lines)
        ctx.evaluations += 1
        fk = "none" if plan is None else plan[0]
        site = "-"
        if out.fired:
            site = out.fired[1].split("#")[0].split(":")[0] if out.fired[0] == "cb" else ":".join(out.fired[1].split(":")[:2])
            ctx.bump("fired_" + out.fired[0])
        label = op["op"] if op["op"] != "call" else "call:" + op["m"].split("_")[0]
        ctx.cell("seq", label, fk, site if out.fired else out.status)
        if plan is None and out.status == "exc" and ("cannot pickle 'module'" in str(out.exc)
                                                      or (isinstance(out.exc, KeyError) and "ModuleType" in repr(out.exc))):
            # whatever the operation: executed fault-free, the library's copy machinery choked on a module
            ctx.violate({"invariant": "copy_succeeds", "mode": "seq", "op": label, "exc": out.exc_type(), "wrap": op.get("wrap", 0)},
                        {"op": op, "msg": strip_addr(str(out.exc))[:200]}, step=idx)
        elif op["op"] == "deepcopy" and out.status == "exc":
            # a copy of (containers of) spec instances must succeed, whatever module-bearing values they hold
            ctx.violate({"invariant": "copy_succeeds", "mode": "seq", "op": label, "exc": out.exc_type(),
                         "wrap": op.get("wrap", 0)}, {"op": op, "msg": strip_addr(str(out.exc))[:200]}, step=idx)
        added, removed, changed = table_diff(self.base)
        when = "at_quiescent_point"
        if not (added or removed or changed) and out.raised:
            # Observable follow-up: one more (fault-free) copy must also leave the table restored;
            # this attributes a leaked reference count to the execution that leaked it.
            from spec_classes.utils.mutation import protect_via_deepcopy

            # (while the application's own entry is registered the library leaves the table alone, and an unbalanced
            # count would only show once that entry is withdrawn: the follow-up copy is made with the entry withdrawn
            # for its duration, which an application may do at any quiescent point)
            own = self.base.get(types.ModuleType, None)
            expect = {k: v for k, v in self.base.items() if k is not types.ModuleType}
            if own is not None:
                copyreg.dispatch_table.pop(types.ModuleType, None)
            try:
                protect_via_deepcopy([1])
            except BaseException as e:  # noqa: BLE001
                if type(e).__name__ in ("KeyboardInterrupt", "SystemExit"):
                    raise
                ctx.violate({"invariant": "copy_after_abort_succeeds", "mode": "seq", "exc": type(e).__name__},
                            {"op": op, "plan": plan}, step=idx)
                repair_globals(expect)
            added, removed, changed = table_diff(expect)
            if own is not None and not (added or removed or changed):
                copyreg.dispatch_table[types.ModuleType] = own
            when = "after_next_copy"
        if added or removed or changed:
            ctx.violate({"invariant": "dispatch_table_restored", "mode": "seq", "op": label, "fault": fk, "site": site,
                         "status": out.status, "added": ",".join(added), "removed": ",".join(removed), "when": when},
                        {"op": op, "plan": plan, "outcome": out.summary(),
                         "stack": out.fired[3][:10] if out.fired else None}, step=idx)
            repair_globals(self.base)
        if commit:
            world.commit(op, prep, out)
        return out

    def step(self, ctx, world, op, idx):
        if op["op"] == "register":
            if op["on_off"] == "on":
                copyreg.dispatch_table[types.ModuleType] = _user_module_reductor
            else:
                copyreg.dispatch_table.pop(types.ModuleType, None)
            self.base = table_snapshot()
            ctx.log(op["id"], "register", op["on_off"])
            return None
        if op.get("probe"):
            ctx.bump("probes")
            out0 = self._exec(ctx, world, op, idx, None, count_lines=True)
            ctx.bump("steps", out0.lines)
            n_cb = len(out0.cb_log)
            j = 1
            while j <= n_cb + 3:
                out = self._exec(ctx, world, op, idx, ("cb", j))
                if not out.fired:
                    break
                j += 1
            kind = op["probe"].get("kind", "interrupt")
            if op["probe"].get("lines") == "all":
                k = 1
                while k <= 6000:
                    out = self._exec(ctx, world, op, idx, ("line", k, kind))
                    if not out.fired:
                        break
                    k += 1
            else:
                for k in line_ks(out0.lines, "quick"):
                    self._exec(ctx, world, op, idx, ("line", k, kind))
        out = self._exec(ctx, world, op, idx, None, commit=True)
        ctx.log(op["id"], out.summary(), state_digest(world))
        return out

    # -- threaded part ---------------------------------------------------------------------
    def gen_thread_case(self, src, spec):
        n_threads = src.choice([2, 2, 3])
        anyattrs = [a["name"] for a in spec["host"]["attrs"] if a["kind"] == "any"]
        n_insts = src.randint(1, 3)
        insts = []
        for _ in range(n_insts):
            kw = {}
            if spec["host"]["options"].get("key"):
                kw["name"] = "k"
            for a in anyattrs:
                kw[a] = good_value(src, "any")
            insts.append(kw)
        values = [good_value(src, "any") for _ in range(src.randint(1, 3))]
        values.append(["list", [["mod", "sys"], ["dict", [["m", ["mod", "os"]]]]]])
        if src.chance(0.3):
            values.append(src.choice(self.ANY_EXTRA))
        plans = []
        for _ in range(n_threads):
            acts = []
            for _ in range(src.randint(1, 3)):
                k = src.choice(THREAD_ACTIONS)
                act = {"kind": k, "i": src.randint(0, 5)}
                if k in ("with_payload", "construct"):
                    act["attr"] = src.choice(anyattrs)
                    act["v"] = good_value(src, "any")
                acts.append(act)
            plans.append(acts)
        return {"insts": insts, "values": values, "plans": plans, "cold_singleton": src.chance(0.7)}

    def _run_threads(self, spec, tc, first, sched):
        saved = patch_locks(sched)
        try:
            world = World(spec)
            shared = {
                "insts": [world.classes["host"](**{k: world.build(v, False) for k, v in kw.items()})
                          for kw in tc["insts"]],
                "values": [world.build(v, False) for v in tc["values"]],
            }
            if tc.get("cold_singleton"):
                # the threads make the first protected copy of the process: the copy-protection singleton does not
                # exist yet (nothing is in flight here, so discarding the one the set-up built is exactly that state)
                from spec_classes.utils.mutation import _modules_copyable
                if "__instance__" in _modules_copyable.__dict__:
                    del _modules_copyable.__instance__
            for acts in tc["plans"]:
                sched.add(lambda acts=acts: [do_copy_action(world, shared, a) for a in acts])
            sched.run(first=first)
        finally:
            unpatch_locks(saved)
        return world

    def drive_threads(self, ctx):
        src = ctx.src
        if ctx.replay:
            c = ctx.case_in
            spec, tc, first, recorded = c["spec"], c["tc"], c.get("first", 0), c["switches"]
        else:
            prof = dict(self.PROFILE)
            prof.update({"allow_sub": False, "allow_key": False})
            spec = gen_class_spec(src, prof)
            tc = self.gen_thread_case(src, spec)
            first = src.randint(0, len(tc["plans"]) - 1)
            recorded = None
        ctx.case.update({"spec": spec, "tc": tc, "first": first})
        # sequential reference (also measures steps)
        probe = Sched(policy={"shape": "bounded", "preempt_set": set(), "rng": random.Random(0)})
        probe.trace_sites = []
        try:
            self._run_threads(spec, tc, first, probe)
        except Exception as e:
            ctx.log("reference_setup_raised", type(e).__name__)
            ctx.case["switches"] = []
            ctx.bump("reference_raised")
            return
        ref = [(t.result, type(t.exc).__name__ if t.exc else None) for t in probe.threads]
        if any(e for _, e in ref):
            # even without any pre-emption every copy must succeed
            ctx.log("reference_raised", [e for _, e in ref])
            ctx.case["switches"] = []
            ctx.evaluations += 1
            for i, t in enumerate(probe.threads):
                if t.exc is not None:
                    ctx.violate({"invariant": "copy_succeeds_in_every_thread", "mode": "threads", "exc": type(t.exc).__name__,
                                 "schedule": "sequential"},
                                {"thread": i, "msg": strip_addr(str(t.exc))[:300], "plan": tc["plans"][i]})
            repair_globals(self.base)
            return
        repair_globals(self.base)
        if not ctx.replay:
            hot = [i + 1 for i, (_, site) in enumerate(probe.trace_sites) if site.startswith("utils/mutation.py")]
            shape = src.weighted([("bounded", 2), ("site", 2.5), ("sync", 4), ("pct", 1), ("random", 1)])
            pol = make_policy(src.rng, shape, probe.step, list(probe.trace_sites) if shape == "site" else hot, len(tc["plans"]))
            if shape == "bounded" and hot:
                # the property asks for pre-emptions at lines of the copy-protection code
                pol["preempt_set"] = set(src.choice(hot) for _ in range(pol["d"]))
            ctx.case["policy"] = policy_to_json(pol)
            sched = Sched(policy=pol, step_cap=50 * max(probe.step, 100))
        else:
            ctx.case["policy"] = ctx.case_in.get("policy")
            sched = Sched(recorded=recorded, step_cap=10 ** 7)
        if ctx.tier == "thorough" and not ctx.replay and (src.chance(0.5) or getattr(self, "warming", False)):
            ctx.case["opcode"] = True
        if ctx.case_in and ctx.case_in.get("opcode"):
            ctx.case["opcode"] = True
        if ctx.case.get("opcode"):
            sched.opcode_funcs = {"__enter__", "__exit__", "__new__", "protect_via_deepcopy"}
        self._run_threads(spec, tc, first, sched)
        ctx.case["switches"] = sched.switches
        ctx.evaluations += 1
        ctx.bump("steps", sched.step)
        n_pre = sum(1 for s in sched.switches if s[3] == "preempt")
        ctx.bump("preemptions", n_pre)
        ctx.bump("forced_switches", len(sched.switches) - n_pre)
        ctx.log("switches", sched.switches)
        acts = tuple("+".join(a["kind"] for a in p) for p in tc["plans"])
        if n_pre:
            ctx.cell("threads", acts, tuple(sorted(set(":".join(s.split(":")[:2]) for s in sched.sites_at_switch))))
        if sched.deadlock:
            ctx.violate({"invariant": "no_deadlock", "mode": "threads"}, {"switches": sched.switches[-6:]})
        if sched.capped:
            ctx.violate({"invariant": "progress_within_cap", "mode": "threads"}, {"steps": sched.step})
        for i, t in enumerate(sched.threads):
            if sched.deadlock or sched.capped:
                break
            if t.exc is not None:
                ctx.violate({"invariant": "copy_succeeds_in_every_thread", "mode": "threads", "exc": type(t.exc).__name__},
                            {"thread": i, "msg": strip_addr(str(t.exc))[:300], "plan": tc["plans"][i]})
                continue
            for a, r in zip(tc["plans"][i], t.result):
                if "mods_src" in r and (r["mods"] != r["mods_src"] or r["abs"] != r["abs_src"]):
                    ctx.violate({"invariant": "copy_equals_source", "mode": "threads", "action": a["kind"]},
                                {"thread": i, "got": r["abs"], "want": r["abs_src"]})
            if t.result != ref[i][0]:
                ctx.violate({"invariant": "thread_result_equals_sequential", "mode": "threads"},
                            {"thread": i, "got": strip_addr(repr(t.result))[:300], "want": strip_addr(repr(ref[i][0]))[:300]})
        added, removed, changed = table_diff(self.base)
        if added or removed or changed:
            ctx.violate({"invariant": "dispatch_table_restored", "mode": "threads", "added": ",".join(added),
                         "removed": ",".join(removed)}, {"switches": sched.switches[-8:]})
        ctx.log("outcomes", [[strip_addr(repr(t.exc))[:80] if t.exc else "ok"] for t in sched.threads])

    def shrink_candidates(self, case):
        if case.get("mode") != "threads":
            yield from super().shrink_candidates(case)
            return
        sw = case.get("switches", [])
        for i, s in enumerate(sw):
            if s[3] == "preempt":
                c = dict(case)
                c["switches"] = sw[:i] + sw[i + 1:]
                yield c
        tc = case["tc"]
        for ti, acts in enumerate(tc["plans"]):
            if len(acts) > 1:
                for ai in range(len(acts)):
                    c = dict(case)
                    c["tc"] = dict(tc, plans=[a[:ai] + a[ai + 1:] if j == ti else a for j, a in enumerate(tc["plans"])])
                    yield c


CHECK = C20
