"""
C04 -- an operation that raises leaves every pre-existing object unchanged.

Every operation of a seeded history (constructor, assignment, deletion, every helper
incl. _inplace=True, multi-keyword update/transform, element helpers) is a probe:
it is executed with an InjectedFault at callback invocation index j = 1, 2, ...
until an execution completes without the fault firing (that execution is the
operation's real effect and the history continues from it).  Ill-formed inputs
(wrong type at each position, missing index/key/element, duplicate key, unknown
keyword) come from the argument generator.  Whenever an execution raises, the
identity snapshot of (all live instances, argument objects, class-level defaults)
must equal the one taken immediately before.
"""

from ..grammar import COLL_KINDS
from ..history import HistoryCheck, is_inplace, method_kind, state_digest
from ..snap import Snapshot
from ..labels import changed_nodes, collection_normalised_in_place


def class_defaults(world):
    out = []
    for role in ("host", "sub", "leaf", "kitem"):
        cls = world.classes.get(role)
        if cls is None:
            continue
        d = cls.__dict__
        for name in world.built.attr_info.get(role, {}):
            if name in d:
                v = d[name]
                if isinstance(v, (list, dict, set)) or hasattr(v, "__dict__") and not callable(v) and not isinstance(v, type):
                    out.append(v)
    return out


def op_label(world, op):
    k = op["op"]
    if k == "call":
        mk = method_kind(world, op)
        if mk:
            return f"{mk[0]}:{mk[1]}", mk[3], mk
        return "call:?", None, None
    if k in ("set", "del"):
        try:
            tgt = world.resolve(op["on"])
            role = world.role_of(tgt)
            kind = world.info(role).get(op["a"], {}).get("kind") if role in world.built.attr_info else None
        except Exception:
            kind = None
        nested = "nested_" if op["on"].get("path") else ""
        return nested + k, kind, None
    return k, None, None


class C04(HistoryCheck):
    PROP = "C04"
    LEVEL = "fault_enumeration"
    RUNS = {"quick": 1500, "thorough": 30000}
    PROFILE = {"allow_frozen": False, "allow_class_dnc": False, "allow_lookup_preparer": True}
    OPGEN = {"p_bad": 0.4, "p_inplace": 0.55, "p_returner": 0.3, "p_user_keyfn": 0.5,
             "weights": {"new": 2, "scalar": 6, "element": 9, "toplevel": 4, "set": 3, "del": 1.5,
                         "get": 0.3, "deepcopy": 0.5}}
    N_OPS = {"quick": (8, 22), "thorough": (10, 35)}
    RULE = ("every operation of a seeded history is executed with an InjectedFault at callback invocation index "
            "j=1,2,... until an execution completes without firing; ill-formed inputs are generated with p=0.4 per "
            "operation (one bad position each). evaluations = executions; an evaluation is non-trivial when it raised "
            "after at least one library line ran; distinct_nontrivial = distinct (operation label, attribute kind, "
            "in-place flag, fault kind, callback class, exception type) among raising executions.")

    def step(self, ctx, world, op, idx):
        label, akind, mk = op_label(world, op)
        inplace = is_inplace(op) or op["op"] in ("set", "del", "mutate")
        j = 1
        while True:
            prep = world.prepare(op)
            insts = list(world.insts.values())
            argobjs = list(prep.args[1:] if op["op"] in ("set", "del") else prep.args) + list(prep.kw.values())
            defaults = class_defaults(world)
            roots = [insts, argobjs, defaults]
            before = Snapshot(roots)
            out = world.run(prep, ("cb", j))
            ctx.evaluations += 1
            if out.fired:
                ctx.bump("fired_cb")
            if out.raised:
                after = Snapshot(roots)
                cbk = out.fired[1].split(":")[0] if out.fired else "-"
                ctx.cell(label, akind, inplace, "cb" if out.fired else "none", cbk, out.exc_type())
                ctx.bump("raised")
                if not before.same(after):
                    what = "graph"
                    for i, nm in enumerate(("instances", "args", "defaults")):
                        if not _root_same(before, after, i):
                            what = nm
                            break
                    ctx.violate(
                        {"invariant": "atomic", "op": label, "attr_kind": akind, "inplace": inplace,
                         "fault": "cb" if out.fired else "none", "cb": cbk, "exc": out.exc_type(), "changed": what,
                         "via": self.classify(world, op, mk, out, before, after, what)},
                        {"op": op, "plan": ["cb", j] if out.fired else None, "outcome": out.summary(),
                         "diff": before.diff(after), "stack": out.fired[3][:14] if out.fired else None},
                        step=idx,
                    )
            if out.fired and out.raised:
                j += 1
                if j > 200:
                    break
                continue
            if out.fired and not out.raised:
                ctx.bump("swallowed_faults")
            break
        world.commit(op, prep, out)
        ctx.log(op["id"], out.summary(), state_digest(world))
        return out

    @staticmethod
    def classify(world, op, mk, out, before, after, what):
        """Narrow labels for the footprints of recorded defects (see known_findings.json)."""
        if what in ("args", "instances", "defaults") and collection_normalised_in_place(world, op, out, before, after):
            return "collection_normalised_in_place"
        if out.fired and out.fired[0] == "cb" and "invalidate_attrs" in out.fired[3]:
            return "raised_during_invalidation"
        if what == "instances" and mk and mk[0] == "toplevel" and is_inplace(op):
            n_attrs = len([k for k in op.get("kw", {}) if not k.startswith("_")]) + len(op.get("args", []))
            if mk[1] == "reset" or n_attrs >= 2:
                # only the receiver's own attribute table / its directly held values may differ
                recv = world.resolve(op["on"])
                ch = changed_nodes(before, after)
                if any(d_after[0] == id(recv) for _, _, d_after in ch):
                    return "multi_attr_inplace_partial_commit"
        return "-"


def _root_same(before, after, i):
    """Compare the sub-graph reachable from root i (ids included)."""

    def sub(snap):
        seen, stack, out = set(), [snap.roots[i]], []
        while stack:
            r = stack.pop()
            if not isinstance(r, list):
                continue
            if len(r) == 2 and r[0] == "N" and isinstance(r[1], int):
                if r[1] in seen:
                    continue
                seen.add(r[1])
                d = snap.desc[r[1]]
                out.append((d[0], d[1], repr(_resolve_ids(d[2], snap))))
                stack.append(d[2])
            else:
                stack.extend(x for x in r if isinstance(x, list))
        return sorted(out), repr(_resolve_ids(snap.roots[i], snap))

    return sub(before) == sub(after)


def _resolve_ids(ref, snap):
    if isinstance(ref, list):
        if len(ref) == 2 and ref[0] == "N" and isinstance(ref[1], int):
            return ["N", snap.desc[ref[1]][0]]
        return [_resolve_ids(x, snap) for x in ref]
    return ref


CHECK = C04
