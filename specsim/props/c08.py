"""
C08 -- instances share no mutable state with defaults, constructor arguments or peers.

World: several instances of one generated class and of its spec / plain subclass,
built with and without constructor arguments (which the harness retains).  Around
every operation of the history (in-place API writes at any depth, direct container
mutation, copy-on-write helpers) the identity snapshot of (class-level defaults of
every class, every retained constructor argument, every *other* instance) must not
move.  After reset_<a> / reset / del the attribute must equal what a freshly
constructed instance of the same class holds, must not be the class-level object
itself, and must be absent when there is no default.
"""

from .c02 import dnc_names
from ..history import HistoryCheck, is_inplace, method_kind, state_digest
from ..snap import Snapshot, abs_value, is_spec_instance, mutable_nodes
from ..world import SkipOp
from .c04 import _root_same, class_defaults


class C08(HistoryCheck):
    PROP = "C08"
    LEVEL = "exploration"
    RUNS = {"quick": 3000, "thorough": 40000}
    PROFILE = {"allow_frozen": False, "allow_class_dnc": False, "allow_attr_dnc": True, "allow_init_false": False, "allow_foreign_defaults": True,
               "allow_preparers": True, "allow_item_preparers": True, "allow_invalidated_by": True}
    OPGEN = {"p_bad": 0.1, "p_inplace": 0.6, "p_nested_target": 0.25, "exclude_fns": ["ident", "missing", "rev"],
             "weights": {"new": 4, "scalar": 6, "element": 8, "toplevel": 3, "set": 4, "del": 3, "get": 0.5,
                         "deepcopy": 1, "mutate": 3, "nested": 3}}
    N_OPS = {"quick": (8, 22), "thorough": (10, 36)}
    RULE = ("around every operation of a seeded history (several instances of a class and its subclass, constructed with and "
            "without retained arguments): identity snapshot of class-level defaults, retained constructor arguments and all "
            "other instances unchanged; after reset_<a>/reset/del the attribute equals a fresh instance's value and is not the "
            "class-level object. evaluations = operations checked; distinct_nontrivial = distinct (operation label, attribute "
            "kind, default style, class role, in-place flag, outcome) among operations whose target held a mutable value.")

    def step(self, ctx, world, op, idx):
        prep = world.prepare(op)
        target_root = world.insts.get(op["on"]["i"]) if "on" in op else None
        others = [v for v in world.insts.values() if v is not target_root]
        # attributes declared do_not_copy hold the caller's object (and are shared between copies) by declaration:
        # their constructor arguments are not "retained" for the class that declares them so, and their values are not
        # part of what peers must keep to themselves
        dnc = {r: dnc_names(world, r) for r in ("host", "sub") if r in world.classes}
        dnc_any = tuple(sorted(set().union(*dnc.values()))) if dnc else ()
        retained = [v for _, role, kw in world.retained_kw for n, v in kw.items() if n not in dnc.get(role, ())]
        defaults = class_defaults(world)
        roots = [defaults, retained, others]
        before = Snapshot(roots, ignore_attrs=dnc_any)
        out = world.run(prep)
        after = Snapshot(roots, ignore_attrs=dnc_any)
        world.commit(op, prep, out)
        ctx.evaluations += 1
        mk = method_kind(world, op)
        label = op["op"] if not mk else f"{mk[0]}:{mk[1]}"
        if op["op"] in ("set", "mutate") and op["on"].get("path"):
            label = "nested_" + op["op"]
        akind = mk[3] if mk else None
        inplace = is_inplace(op) or op["op"] in ("set", "del", "mutate")
        role = world.role_of(target_root) if target_root is not None else op.get("cls")
        dstyle = None
        aname = mk[2] if mk else op.get("a")
        if aname and role in world.built.attr_info and aname in world.info(role):
            dstyle = world.info(role)[aname]["default"][0]
            akind = world.info(role)[aname]["kind"]
        ctx.cell(label, akind, dstyle, role, inplace, out.status)
        if not before.same(after):
            what = "graph"
            for i, nm in enumerate(("class_defaults", "constructor_args", "peers")):
                if not _root_same(before, after, i):
                    what = nm
                    break
            ctx.violate({"invariant": "no_leak_into_" + what, "op": label, "attr_kind": akind, "inplace": inplace,
                         "default_style": dstyle, "role": role},
                        {"op": op, "outcome": out.summary(), "diff": before.diff(after)}, idx)
        # reset semantics ---------------------------------------------------------------
        if out.status == "ok":
            res = None
            names = None
            if op.get("kw", {}).get("_if") is False:
                pass
            elif mk and mk[1] == "reset":
                res = out.value
                names = [mk[2]] if mk[0] == "scalar" else None
            elif op["op"] == "del" and not op["on"].get("path"):
                res = prep.target
                names = [op["a"]]
            if res is not None and is_spec_instance(res) and world.role_of(res) in ("host", "sub"):
                self.check_reset(ctx, world, op, idx, res, names, label)
        ctx.log(op["id"], out.summary(), state_digest(world))
        return out

    def check_reset(self, ctx, world, op, idx, res, names, label):
        role = world.role_of(res)
        info = world.info(role)
        cls = type(res)
        kw = {}
        if world.spec["host"]["options"].get("key") and "name" in res.__dict__:
            kw["name"] = res.__dict__["name"]
        try:
            fresh = cls(**kw)
        except Exception:
            return
        names = list(info) if names is None else names
        for a in names:
            if a not in info or a == "name":
                continue
            got = res.__dict__.get(a, _ABSENT)
            want = fresh.__dict__.get(a, _ABSENT)
            dstyle = info[a]["default"][0]
            sig = {"invariant": "reset_equals_fresh_instance", "op": label, "attr_kind": info[a]["kind"],
                   "default_style": dstyle, "role": role,
                   "redefaulted": bool(info[a].get("redefaulted") or info[a].get("redeclared"))}
            if (got is _ABSENT) != (want is _ABSENT):
                ctx.violate(dict(sig, effect="missing" if got is _ABSENT else "present_but_fresh_has_none"),
                            {"op": op, "attr": a, "got": abs_value(got) if got is not _ABSENT else None,
                             "want": abs_value(want) if want is not _ABSENT else None}, idx)
                continue
            if got is _ABSENT:
                continue
            if abs_value(got) != abs_value(want):
                ctx.violate(dict(sig, effect="different_value"),
                            {"op": op, "attr": a, "got": abs_value(got), "want": abs_value(want)}, idx)
            if mutable_nodes([got]):
                for k in cls.__mro__:
                    if a in k.__dict__ and k.__dict__[a] is got:
                        ctx.violate(dict(sig, effect="is_class_level_object"), {"op": op, "attr": a}, idx)
                shared = set(mutable_nodes([got])) & set(mutable_nodes([class_defaults(world)]))
                if shared:
                    ctx.violate(dict(sig, effect="shares_with_class_level_object"), {"op": op, "attr": a}, idx)


_ABSENT = object()

CHECK = C08
