"""
C03 -- managed attributes always satisfy their declared type on every mutation route.

Invariant evaluated after every operation of every seeded history, on every live instance
and every managed attribute: the slot is absent or an independently written reference
checker (`conforms`) accepts the stored value for the declared annotation, recursively
(elements, keys and values, Union arms, Literal choices, nested spec attributes, validated
predicates, key-index coherence of keyed containers).  Second oracle: when the generator
aimed a non-conforming value at one position of the call and that is the only thing wrong
with it, the call must raise TypeError or ValueError.
"""

from ..core import strip_addr
from ..grammar import ALL_KINDS, FAMILY, ITEM_KIND, is_even_int
from ..history import HistoryCheck, is_inplace, method_kind, state_digest
from ..snap import is_spec_instance


def _is_int(x):
    return isinstance(x, int)


def conforms(value, kind, depth=0):
    """Reference conformance of a stored value to the annotation of attribute kind `kind`. -> None or reason."""
    t = type(value).__name__
    if kind == "any":
        return None
    if kind == "int":
        return None if _is_int(value) else f"{t} is not int"
    if kind == "str":
        return None if isinstance(value, str) else f"{t} is not str"
    if kind == "float":
        return None if isinstance(value, (int, float)) else f"{t} is not float"
    if kind == "optint":
        return None if value is None or _is_int(value) else f"{t} is not Optional[int]"
    if kind == "union":
        return None if _is_int(value) or isinstance(value, str) else f"{t} is not Union[int, str]"
    if kind == "lit":
        return None if value in ("a", "b") and isinstance(value, str) else f"{value!r} not in Literal['a','b']"
    if kind == "litint":
        return None if type(value) is int and value in (1, 2) else f"{value!r} is not Literal[1, 2]"
    if kind == "tup2":
        ok = isinstance(value, tuple) and len(value) == 2 and _is_int(value[0]) and isinstance(value[1], str)
        return None if ok else f"{value!r} is not Tuple[int, str]"
    if kind == "tupvar":
        ok = isinstance(value, tuple) and all(_is_int(e) for e in value)
        return None if ok else f"{value!r} is not Tuple[int, ...]"
    if kind == "bounded":
        return None if _is_int(value) and value >= 0 else f"{value!r} is not int>=0"
    if kind == "validated":
        return None if is_even_int(value) else f"{value!r} is not an even int"
    if kind == "list_str":
        if not isinstance(value, list):
            return f"{t} is not list"
        return next((f"element {e!r} is not str" for e in value if not isinstance(e, str)), None)
    if kind == "leaf":
        if t != "Leaf" or not is_spec_instance(value):
            return f"{t} is not Leaf"
        d = value.__dict__
        for n, k in (("p", "int"), ("q", "str"), ("notes", "list_str")):
            if n in d:
                r = conforms(d[n], k, depth + 1)
                if r:
                    return f"Leaf.{n}: {r}"
        return None
    if kind == "kitem":
        if t != "KItem" or not is_spec_instance(value):
            return f"{t} is not KItem"
        d = value.__dict__
        for n, k in (("k", "str"), ("v", "int")):
            if n in d:
                r = conforms(d[n], k, depth + 1)
                if r:
                    return f"KItem.{n}: {r}"
        return None
    fam = FAMILY.get(kind)
    ik = ITEM_KIND.get(kind)
    if fam == "seq":
        if kind == "klist":
            if t != "KeyedList":
                return f"{t} is not KeyedList"
            items = value.__dict__["_list"]
            index = value.__dict__["_dict"]
            if len(index) != len(items):
                return "key index and list disagree in size"
            for it in items:
                r = conforms(it, ik, depth + 1)
                if r:
                    return f"item: {r}"
                k = it.__dict__.get("k")
                if not isinstance(k, str):
                    return f"key {k!r} is not str"
                if index.get(k) is not it:
                    return f"key index incoherent for {k!r}"
            return None
        if not isinstance(value, list):
            return f"{t} is not list"
        return next((f"element: {r}" for r in (conforms(e, ik, depth + 1) for e in value) if r), None)
    if fam == "map":
        if not isinstance(value, dict):
            return f"{t} is not dict"
        for k, v in value.items():
            if not isinstance(k, str):
                return f"key {k!r} is not str"
            r = conforms(v, ik, depth + 1)
            if r:
                return f"value for {k!r}: {r}"
        return None
    if fam == "set":
        if kind == "kset":
            if t != "KeyedSet":
                return f"{t} is not KeyedSet"
            for k, it in value.__dict__["_dict"].items():
                r = conforms(it, ik, depth + 1)
                if r:
                    return f"item: {r}"
                if not isinstance(k, str) or it.__dict__.get("k") != k:
                    return f"key {k!r} wrong type or incoherent"
            return None
        if not isinstance(value, set):
            return f"{t} is not set"
        return next((f"element: {r}" for r in (conforms(e, ik, depth + 1) for e in value) if r), None)
    return f"unknown kind {kind}"


def route_of(world, op):
    k = op["op"]
    if k == "new":
        return "constructor"
    if k == "set":
        return "nested_setattr" if op["on"].get("path") else "setattr"
    if k == "del":
        return "del"
    if k == "call":
        mk = method_kind(world, op)
        if mk:
            return f"{mk[0]}:{mk[1]}" + (":inplace" if is_inplace(op) else "")
    return k


class C03(HistoryCheck):
    PROP = "C03"
    LEVEL = "exploration"
    RUNS = {"quick": 1500, "thorough": 30000}
    PROFILE = {"allow_frozen": False, "allow_class_dnc": False, "allow_bad_defaults": True,
               "kinds": ALL_KINDS + ["tup2", "tupvar", "litint"]}  # (tuple generics are named by the statement)
    OPGEN = {"p_bad": 0.45, "p_inplace": 0.5, "p_nested_target": 0.2,
             "weights": {"new": 3, "scalar": 7, "element": 10, "toplevel": 4, "set": 4, "del": 1, "get": 0.3,
                         "deepcopy": 0.3, "nested": 2}}
    N_OPS = {"quick": (8, 24), "thorough": (10, 40)}
    RULE = ("after every operation of a seeded history (45% of operations carry one non-conforming value aimed at one position: "
            "whole value, element, key / index, nested attribute, transform result, preparer result) every managed attribute of "
            "every live instance is checked by an independent reference conformance checker (the class grammar of this check adds "
            "Tuple[int, str], Tuple[int, ...] and an int-valued Literal; non-conforming values include values EQUAL to conforming ones "
            "but of another type, and keyed containers whose own key function yields keys of the wrong type). evaluations = operations executed; "
            "distinct_nontrivial = distinct (route, attribute kind, outcome class) with at least one managed attribute holding a "
            "value.")

    def step(self, ctx, world, op, idx):
        prep = world.prepare(op)
        out = world.run(prep)
        world.commit(op, prep, out)
        ctx.evaluations += 1
        route = route_of(world, op)
        mk = method_kind(world, op)
        akind = mk[3] if mk else None
        if op["op"] in ("set", "del") and not op["on"].get("path"):
            tgt = prep.target
            r = world.role_of(tgt)
            if r in world.built.attr_info:
                akind = world.info(r).get(op["a"], {}).get("kind")
        ctx.cell(route, akind, out.status + ":" + str(out.exc_type()))
        # invariant on every live instance (+ the result, which may not have been registered)
        insts = list(world.insts.values())
        if out.status == "ok" and is_spec_instance(out.value) and not any(out.value is i for i in insts):
            insts.append(out.value)
        for inst in insts:
            role = world.role_of(inst)
            if role not in ("host", "sub"):
                continue
            for name, a in world.info(role).items():
                if name in inst.__dict__:
                    why = conforms(inst.__dict__[name], a["kind"])
                    if why:
                        pos = why.split(":")[0].split(" ")[0]
                        ctx.violate({"invariant": "attribute_conforms_to_annotation", "route": route, "attr_kind": a["kind"],
                                     "position": pos, "status": out.status},
                                    {"op": op, "attr": name, "why": why, "value": strip_addr(repr(inst.__dict__[name]))[:200]}, idx)
                        # repair so that one stored bad value is reported once
                        try:
                            del inst.__dict__[name]
                        except Exception:
                            pass
        ctx.log(op["id"], out.summary(), state_digest(world))
        return out


CHECK = C03
