"""
C05 -- scalar and top-level helpers compute exactly the documented new state.

For every scalar / top-level helper call of a seeded history (values from the conforming
pool, transforms from the pure-function pool, every flag combination):

  model        abstract state of the result == models.HostModel (replacement by the prepared
               value, nested spec built / merged from keywords, f(old), defaults, several
               changes at once, invalidated_by resets); untouched attributes unchanged;
  identities   _inplace=True returns the receiver; _if=False and UNCHANGED return the receiver
               untouched; a copy-on-write call returns a different object;
  metamorphic  copy-run == in-place-run on a clone; obj.a = v == with_a(v, _inplace=True);
               update(a=.., b=..) == with_a(..).with_b(..); MISSING keyword values are skipped.
"""

import copy

from ..core import strip_addr
from ..history import HistoryCheck, is_inplace, method_kind, state_digest
from ..models import _MISSING, _NOARG, ABSENT, FnName, HostModel, Raises, Unmodelled
from ..snap import abs_instance, abs_value, is_spec_instance
from ..world import SkipOp


def managed_abs(world, inst):
    role = world.role_of(inst)
    info = world.info(role)
    d = inst.__dict__
    return {n: (abs_value(d[n]) if n in d else ABSENT) for n in info}


def model_args(world, op):
    def conv(v):
        if isinstance(v, list) and v and v[0] == "fn":
            return FnName(v[1])
        if isinstance(v, list) and v and v[0] == "sent":
            return ("sent", v[1])
        return world.build(v, False)
    return [conv(a) for a in op.get("args", [])], {k: conv(v) for k, v in op.get("kw", {}).items() if not k.startswith("_")}


def has_sentinel(op, name=None):
    for a in list(op.get("args", [])) + [v for k, v in op.get("kw", {}).items() if not k.startswith("_")]:
        if isinstance(a, list) and a and a[0] == "sent" and (name is None or a[1] == name):
            return True
    return False


class C05(HistoryCheck):
    PROP = "C05"
    LEVEL = "exploration"
    RUNS = {"quick": 1500, "thorough": 30000}
    PROFILE = {"allow_frozen": False, "allow_class_dnc": False, "allow_init_false": False, "allow_attr_dnc": False,
               "allow_leaf_inv": True}
    OPGEN = {"p_bad": 0.0, "p_inplace": 0.35, "p_if_false": 0.08, "p_sentinel": 0.1, "exclude_fns": [],
             "weights": {"new": 2, "scalar": 10, "element": 3, "toplevel": 6, "set": 3, "del": 1.5, "get": 0.5,
                         "deepcopy": 0.3}}
    N_OPS = {"quick": (6, 20), "thorough": (8, 32)}
    RULE = ("each scalar / top-level helper call of a seeded history is checked against models.HostModel, against identity "
            "rules (_inplace, _if=False, UNCHANGED) and against metamorphic relations executed on clones (copy vs in-place, "
            "assignment vs with_, update vs chained with_, MISSING keywords skipped). evaluations = helper executions incl. "
            "clone executions; distinct_nontrivial = distinct (helper, attribute kind, call form, flags, relation, outcome).")

    def step(self, ctx, world, op, idx):
        mk = method_kind(world, op)
        if op["op"] == "set" and not op["on"].get("path"):
            return self.step_set(ctx, world, op, idx)
        if not (mk and mk[0] in ("scalar", "toplevel")):
            return super().step(ctx, world, op, idx)
        fam, verb, aname, akind = mk
        prep = world.prepare(op)
        X = prep.target
        role = world.role_of(X)
        if role not in ("host", "sub"):
            return super().step(ctx, world, op, idx)
        before = managed_abs(world, X)
        # deep copies: the library may normalise the receiver's own collections in place (known finding C01-KF1)
        before_real = {n: (copy.deepcopy(X.__dict__[n]) if n in X.__dict__ else _MISSING) for n in world.info(role)}
        # clones for the metamorphic routes are taken *before* the call
        clone_inplace = copy.deepcopy(X)
        clone_alt = copy.deepcopy(X)
        out = world.run(prep)
        world.commit(op, prep, out)
        ctx.evaluations += 1
        kw = op.get("kw", {})
        inplace = bool(kw.get("_inplace"))
        if_false = kw.get("_if") is False
        form = self.form(op, mk)
        sig = {"helper": f"{fam}:{verb}", "attr_kind": akind, "form": form, "inplace": inplace}
        ctx.cell(fam, verb, akind, form, inplace, if_false, out.status + ":" + str(out.exc_type()))
        ctx.log(op["id"], out.summary(), state_digest(world))
        # ---- identities ----------------------------------------------------------------------------
        if if_false:
            if out.status != "ok" or out.value is not X or managed_abs(world, X) != before:
                ctx.violate(dict(sig, invariant="if_false_is_noop_returning_receiver"),
                            {"op": op, "outcome": out.summary()}, idx)
            return out
        if out.status != "ok":
            # conforming pool: a failure must at least be the same on the in-place route
            o2 = self.rerun(world, op, clone_inplace, force_inplace=True)
            ctx.evaluations += 1
            if o2.status != out.status or o2.exc_type() != out.exc_type():
                ctx.violate(dict(sig, invariant="copy_run_equals_inplace_run", what="outcome"),
                            {"op": op, "copy": out.summary(), "inplace": o2.summary()}, idx)
            return out
        R = out.value
        whole_unchanged = fam == "scalar" and verb in ("with", "update") and has_sentinel(op, "UNCHANGED") \
            and op.get("args") and op["args"][0] == ["sent", "UNCHANGED"]
        if whole_unchanged:
            if R is not X or managed_abs(world, X) != before:
                ctx.violate(dict(sig, invariant="unchanged_is_noop_returning_receiver"), {"op": op}, idx)
            return out
        if inplace and R is not X:
            ctx.violate(dict(sig, invariant="inplace_returns_receiver"), {"op": op}, idx)
        if not is_spec_instance(R):
            return out  # e.g. transform(fn) returning something else
        got = managed_abs(world, R) if world.role_of(R) == role else None
        if got is None:
            return out
        # ---- model ----------------------------------------------------------------------------------
        try:
            want = self.expected(world, role, before, before_real, op, mk)
        except (Unmodelled, Raises):
            want = None
            ctx.bump("unmodelled")
        if want is not None:
            ctx.bump("modelled")
            diff = {n: (got.get(n), want[n]) for n in want if got.get(n) != want[n]}
            if diff:
                n0 = sorted(diff)[0]
                touched = n0 in self.touched(op, mk)
                ctx.violate(dict(sig, invariant="state_equals_documented_model",
                                 where="target_attribute" if touched else "other_attribute",
                                 other_kind=world.info(role)[n0]["kind"]),
                            {"op": op, "attr": n0, "got": strip_addr(repr(diff[n0][0]))[:200],
                             "want": strip_addr(repr(diff[n0][1]))[:200]}, idx)
        # ---- metamorphic: copy-run vs in-place-run ---------------------------------------------------
        if not inplace:
            o2 = self.rerun(world, op, clone_inplace, force_inplace=True)
            ctx.evaluations += 1
            if o2.status != "ok":
                ctx.violate(dict(sig, invariant="copy_run_equals_inplace_run", what="outcome"),
                            {"op": op, "inplace": o2.summary()}, idx)
            elif o2.value is not clone_inplace and is_spec_instance(o2.value):
                ctx.violate(dict(sig, invariant="inplace_returns_receiver"), {"op": op}, idx)
            elif managed_abs(world, clone_inplace) != got:
                a, b = managed_abs(world, clone_inplace), got
                n0 = sorted(n for n in a if a[n] != b.get(n))[0]
                ctx.violate(dict(sig, invariant="copy_run_equals_inplace_run", what="state"),
                            {"op": op, "attr": n0, "inplace": strip_addr(repr(a[n0]))[:200], "copy": strip_addr(repr(b.get(n0)))[:200]}, idx)
        # ---- metamorphic: update(...) == chained with_ ; MISSING keywords skipped ------------------------
        if fam == "toplevel" and verb == "update" and not op.get("args"):
            cur = clone_alt
            ok = True
            for n, v in kw.items():
                if n.startswith("_") or v == ["sent", "MISSING"] or v == ["sent", "UNCHANGED"]:
                    continue
                try:
                    cur = getattr(cur, f"with_{n}")(world.build(v, False))
                    ctx.evaluations += 1
                except Exception:
                    ok = False
                    break
            if ok and managed_abs(world, cur) != got:
                a, b = managed_abs(world, cur), got
                n0 = sorted(n for n in a if a[n] != b.get(n))[0]
                ctx.violate(dict(sig, invariant="update_equals_chained_with"),
                            {"op": op, "attr": n0, "chained": strip_addr(repr(a[n0]))[:200], "update": strip_addr(repr(b.get(n0)))[:200]}, idx)
        # ---- metamorphic: transform(a=f, b=g) == transform_a(f).transform_b(g), in keyword order ---------------
        if fam == "toplevel" and verb == "transform" and not op.get("args"):
            fns = [(n, v) for n, v in kw.items() if not n.startswith("_")]
            if len(fns) >= 2:
                cur = clone_alt
                ok = True
                for n, v in fns:
                    if n not in cur.__dict__:
                        # a missing value: transform_<a> builds one first where the top-level form hands the
                        # sentinel to the function -- the two are not comparable there
                        ok = False
                        break
                    try:
                        cur = getattr(cur, f"transform_{n}")(world.build(v, False))
                        ctx.evaluations += 1
                    except Exception:
                        ok = False
                        break
                if ok and managed_abs(world, cur) != got:
                    a, b = managed_abs(world, cur), got
                    n0 = sorted(n for n in a if a[n] != b.get(n))[0]
                    ctx.violate(dict(sig, invariant="transform_equals_chained_transform"),
                                {"op": op, "attr": n0, "chained": strip_addr(repr(a[n0]))[:200],
                                 "transform": strip_addr(repr(b.get(n0)))[:200]}, idx)
        # ---- metamorphic: nested keywords == constructing the nested value first ---------------------------
        if fam == "scalar" and verb == "with" and akind == "leaf" and form == "kw":
            nested_kw = {k: world.build(v, False) for k, v in kw.items() if not k.startswith("_")}
            try:
                alt = getattr(clone_alt, f"with_{aname}")(world.classes["leaf"](**nested_kw))
                ctx.evaluations += 1
                if managed_abs(world, alt) != got:
                    ctx.violate(dict(sig, invariant="nested_keywords_equal_constructed_value"), {"op": op}, idx)
            except Exception as e:
                ctx.violate(dict(sig, invariant="nested_keywords_equal_constructed_value", exc=type(e).__name__), {"op": op}, idx)
        return out

    # -- obj.a = v  ==  with_a(v, _inplace=True) ----------------------------------------------------------------
    def step_set(self, ctx, world, op, idx):
        prep = world.prepare(op)
        X = prep.target
        role = world.role_of(X)
        if role not in ("host", "sub") or op["a"] not in world.info(role):
            return super().step(ctx, world, op, idx)
        clone = copy.deepcopy(X)
        out = world.run(prep)
        world.commit(op, prep, out)
        ctx.evaluations += 2
        alt_op = {"op": "call", "on": op["on"], "m": f"with_{op['a']}", "args": [op["v"]], "kw": {"_inplace": True}, "id": op["id"]}
        o2 = self.rerun(world, alt_op, clone, force_inplace=True)
        akind = world.info(role)[op["a"]]["kind"]
        sig = {"helper": "setattr", "attr_kind": akind, "form": "value", "inplace": True}
        ctx.cell("setattr", akind, out.status + ":" + str(out.exc_type()))
        if out.status != o2.status or out.exc_type() != o2.exc_type():
            ctx.violate(dict(sig, invariant="assignment_equals_inplace_with", what="outcome"),
                        {"op": op, "assignment": out.summary(), "with": o2.summary()}, idx)
        elif out.status == "ok" and managed_abs(world, X) != managed_abs(world, clone):
            ctx.violate(dict(sig, invariant="assignment_equals_inplace_with", what="state"), {"op": op}, idx)
        ctx.log(op["id"], out.summary(), state_digest(world))
        return out

    def rerun(self, world, op, target, force_inplace=False):
        """Execute `op` (fresh arguments) against another receiver object."""
        op2 = dict(op)
        if force_inplace:
            op2["kw"] = {**op.get("kw", {}), "_inplace": True}
        world.faults.begin(None)
        args = [world.build(a) for a in op2.get("args", [])]
        kw = {k: world.build(v) for k, v in op2.get("kw", {}).items()}
        from ..world import Prepared

        fn = getattr(target, op2["m"])
        return world.run(Prepared(fn, args, kw, target, op2))

    @staticmethod
    def form(op, mk):
        kw = {k: v for k, v in op.get("kw", {}).items() if not k.startswith("_")}
        args = op.get("args", [])
        parts = []
        if args:
            a0 = args[0]
            parts.append("fn" if isinstance(a0, list) and a0 and a0[0] == "fn" else
                         "sentinel" if isinstance(a0, list) and a0 and a0[0] == "sent" else
                         "dict" if isinstance(a0, list) and a0 and a0[0] == "dict" and mk[3] == "leaf" else "value")
        if kw:
            parts.append("kw")
        return "+".join(parts) or "none"

    @staticmethod
    def touched(op, mk):
        if mk[0] == "scalar":
            return {mk[2]}
        return {k for k in op.get("kw", {}) if not k.startswith("_")}

    def expected(self, world, role, before, before_real, op, mk):
        fam, verb, aname, akind = mk
        model = HostModel(world, role)
        margs, mkw = model_args(world, op)
        want = dict(before)
        changed = []
        if fam == "scalar":
            if any(isinstance(a, tuple) and len(a) == 2 and a[0] == "sent" for a in margs + list(mkw.values())):
                raise Unmodelled("sentinel argument")
            want[aname] = model.expect_attr(aname, verb, before_real[aname], margs, mkw)
            changed = [aname]
        elif verb == "reset":
            for n in model.names:
                want[n] = model.expect_attr(n, "reset", before_real[n], [], {})
            return want
        elif verb == "update":
            if margs:
                raise Unmodelled("update with a replacement instance")
            for n, v in mkw.items():
                if isinstance(v, tuple) and len(v) == 2 and v[0] == "sent":
                    if v[1] in ("MISSING", "UNCHANGED"):
                        continue
                    raise Unmodelled("sentinel")
                want[n] = model.expect_attr(n, "with", before_real[n], [v], {})
                changed.append(n)
                for d in model.dependants([n]):
                    want[d] = model.expect_attr(d, "reset", None, [], {})
            return want
        elif verb == "transform":
            if margs:
                raise Unmodelled("whole-instance transform")
            cur_real = dict(before_real)
            for n, f in mkw.items():
                if not isinstance(f, FnName):
                    raise Unmodelled("non-function")
                if world.info(role)[n]["kind"] == "leaf":
                    raise Unmodelled("top-level transform of a nested spec")
                want[n] = model.expect_attr(n, "transform", cur_real[n], [f], {})
                for d in model.dependants([n]):
                    want[d] = model.expect_attr(d, "reset", None, [], {})
                    cur_real[d] = _MISSING  # its new real value is not tracked: later transforms of it are unmodelled
            return want
        for d in model.dependants(changed):
            want[d] = model.expect_attr(d, "reset", None, [], {})
        return want


CHECK = C05
