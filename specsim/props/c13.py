"""
C13 -- KeyedList is a list with unique keys and a coherent key index.

Seeded histories of list / dict-like operations on a real KeyedList against a plain
list model plus the key function.  Every operation is executed with an
InjectedFault at key-function invocation index j = 1, 2, ... (when the universe
has an explicit key function) until it completes.  After every execution all
public reads must agree with the model; after a raising execution they must agree
with the *previous* model state.
"""

from ..core import HarnessError, strip_addr
from ..faults import Faults, make_callback
from ..harness import Check
from ..snap import abs_value

UNIVERSES = ["str", "int", "tuple_keyfn", "kitem", "kitem_typed", "str_typed", "tuple_typed", "mod_keyfn", "repr_keyfn", "selfkey_typed"]


def make_kitem_class():
    from spec_classes import spec_class

    ns = {"__annotations__": {"k": str, "v": int}, "v": 0, "__module__": "specsim.generated", "__qualname__": "KItem",
          "__hash__": lambda self: hash(("KItem", self.__dict__.get("k")))}
    return spec_class(key="k", bootstrap=True)(type("KItem", (), ns))


class Env:
    """Real container factory + item builder + model key function for one universe."""

    def __init__(self, universe, faults, container="list", enforce=False):
        from spec_classes.types import KeyedList, KeyedSet

        self.universe = universe
        self.faults = faults
        self.KItem = make_kitem_class() if universe.startswith("kitem") else None
        self.container = container
        self.enforce = enforce
        K = KeyedList if container == "list" else KeyedSet
        self.K = K
        self.keyfn_real = None
        if universe in ("tuple_keyfn", "tuple_typed"):
            self.keyfn_real = make_callback(faults, "keyfn", lambda t: t[0])
        if universe == "repr_keyfn":
            self.keyfn_real = make_callback(faults, "keyfn", lambda x: "k" + repr(x))
        if universe == "mod_keyfn":
            # a key function that is not injective: unequal items (0, 3, 6 / 1, 4 / ...) share a key, and both a
            # falsy item (0) and a falsy key (0) occur
            self.keyfn_real = make_callback(faults, "keyfn", lambda i: i % 3)
        if universe == "kitem_attrkey":
            # keyed objects with an attribute-reading key function: applied to anything that is not an item (an absent
            # key, say) it raises AttributeError
            self.keyfn_real = make_callback(faults, "keyfn", lambda i: i.k)
        if universe == "kitem_typed":
            self.ctor = K[self.KItem, str]
        elif universe == "str_typed":
            self.ctor = K[str, str]
        elif universe == "selfkey_typed":
            import typing
            # items are their own keys, and the item type is wider than the key type: "a" is a fine item and a wrong key
            self.ctor = K[typing.Union[int, str], int]
        elif universe == "tuple_typed":
            self.ctor = K[tuple, str]
        else:
            self.ctor = K
        self.typed = universe.endswith("_typed")

    def new(self, items):
        kw = {}
        if self.keyfn_real is not None:
            kw["key"] = self.keyfn_real
        if self.container == "set" and self.enforce:
            kw["enforce_item_equivalence"] = True
        return self.ctor(items, **kw)

    def build(self, v):
        if isinstance(v, list):
            tag = v[0]
            if tag == "tuple":
                return tuple(self.build(x) for x in v[1])
            if tag == "kitem":
                return self.KItem(**v[1])
            if tag == "list":
                return [self.build(x) for x in v[1]]
            if tag == "set":
                return {self.build(x) for x in v[1]}
            if tag == "float":
                return float(v[1])
            raise HarnessError(f"bad valref {v}")
        return v

    # -- model side -----------------------------------------------------------------
    def key(self, item):
        """Model key function (never faults)."""
        u = self.universe
        if u in ("tuple_keyfn", "tuple_typed"):
            return item[0]
        if u == "repr_keyfn":
            return "k" + repr(item)
        if u == "mod_keyfn":
            return item % 3
        if u.startswith("kitem") and type(item).__name__ == "KItem":
            return item.__dict__.get("k")
        return item

    def type_ok(self, item):
        u = self.universe
        if not self.typed:
            return True
        if u == "kitem_typed":
            return type(item).__name__ == "KItem" and isinstance(item.__dict__.get("k"), str)
        if u == "str_typed":
            return isinstance(item, str)
        if u == "selfkey_typed":
            return isinstance(item, int)
        if u == "tuple_typed":
            return isinstance(item, tuple) and len(item) >= 1 and isinstance(item[0], str)
        return True

    def keyable(self, item):
        """Can the (model) key function be applied and is the key hashable?"""
        u = self.universe
        try:
            if u in ("tuple_keyfn", "tuple_typed"):
                if not isinstance(item, tuple) or not item:
                    return False
            if u == "mod_keyfn" and (isinstance(item, bool) or not isinstance(item, int)):
                return False
            if u == "kitem_attrkey" and type(item).__name__ != "KItem":
                return False
            hash(self.key(item))
            return True
        except Exception:
            return False

    # -- generation -------------------------------------------------------------------
    def gen_item(self, src, existing_keys=(), want="any"):
        u = self.universe
        keys = ["a", "b", "c", "d"]
        if u in ("str", "str_typed"):
            return src.choice(keys)
        if u == "int":
            return src.choice([0, 1, 2, 3, 7])
        if u == "mod_keyfn":
            return src.choice([0, 1, 2, 3, 4, 6])
        if u == "selfkey_typed":
            return src.choice([0, 1, 2, 3, 7])
        if u == "repr_keyfn":  # falsy and truthy items, identified by an explicit key function
            # (1, 1.0 and True are equal to each other and have three different keys)
            # (for lists only: against a built-in set operand equal items are one element, whatever their keys)
            extra = [["float", "1.0"], True] if self.container == "list" else []
            return src.choice([0, 1, "", "a", ["tuple", []], ["tuple", [1]]] + extra)
        if u in ("tuple_keyfn", "tuple_typed"):
            return ["tuple", [src.choice(keys), src.choice([0, 1])]]
        if u.startswith("kitem"):
            return ["kitem", {"k": src.choice(keys + [""]), "v": src.choice([0, 1])}]  # (a falsy key value is a key)
        raise HarnessError(u)

    def gen_bad_item(self, src):
        u = self.universe
        if u == "str_typed":
            return src.choice([5, None, ["tuple", ["a", 1]]])
        if u == "selfkey_typed":
            return src.choice(["a", "zz", ["float", "1.5"]])
        if u == "tuple_typed":
            return src.choice([["tuple", [5, 1]], "zz", 7])
        if u == "kitem_typed":
            return src.choice([5, "a", ["tuple", ["a", 1]]])
        if u == "tuple_keyfn":
            return src.choice([5, ["tuple", [["list", [1]], 0]]])  # key fn fails / unhashable key
        if u == "kitem":
            return ["list", [1]]  # unhashable, not a keyed spec
        if u in ("str", "int"):
            return ["list", [1]]
        if u == "mod_keyfn":
            return src.choice(["s", ["list", [1]]])  # the key function fails (TypeError)
        if u == "repr_keyfn":
            return 7  # nothing is ill-formed for a repr-keyed untyped container (unhashable items have their own universe)
        return 5


def _list_eq(a, b):
    if a is b:
        return True
    try:
        return bool(a == b)
    except Exception:
        return False


def item_eq(a, b):
    return a is b or (type(a) is type(b) and abs_value(a) == abs_value(b))


class C13(Check):
    PROP = "C13"
    LEVEL = "exploration"
    RUNS = {"quick": 3000, "thorough": 60000}
    N_OPS = {"quick": (6, 22), "thorough": (8, 40)}
    RULE = ("seeded histories over KeyedList for 10 item universes (self-keyed str / int, tuples with an explicit key "
            "function, keyed spec items; untyped and KeyedList[T, K]); each operation runs against a plain-list model and, "
            "for universes with a key function, is re-executed with an InjectedFault at every key-function invocation "
            "index; keys() / items() are compared with a linear scan IN ORDER after every successful operation; slice results "
            "are read as KeyedLists in their own right and one in twenty is copied / extended through 1100 further generations. "
            "evaluations = operation executions; distinct_nontrivial = distinct (universe, operation, container "
            "length 0..4/5+, index class, outcome class).")

    OPS = [("getitem_idx", 2), ("getitem_slice", 1), ("getitem_key", 2), ("setitem_idx", 3), ("setitem_key", 2),
           ("delitem_idx", 2), ("delitem_key", 1.5), ("insert", 3), ("append", 3), ("extend", 2), ("pop", 1.5),
           ("pop_idx", 1.5), ("remove", 1.5), ("reverse", 1), ("iadd", 1.5), ("add", 1), ("radd", 0.5), ("clear", 0.4),
           ("contains", 1.5), ("index", 1), ("count", 0.7), ("get", 1), ("index_for_key", 1), ("eq", 0.5),
           ("setitem_slice", 0.2), ("delitem_slice", 0.2)]

    # -- generation ---------------------------------------------------------------------
    def gen_op(self, src, env, m):
        n = len(m)
        name = src.weighted(self.OPS)
        bad = src.chance(0.12)

        def idx(valid=None):
            if valid is None:
                valid = not src.chance(0.2)
            if valid and n:
                return src.randint(-n, n - 1)
            return src.choice([n, n + 1, -n - 1, 9])

        def item():
            return env.gen_bad_item(src) if bad else env.gen_item(src)

        def existing_item_ref():
            if m and src.chance(0.75):
                return ["ref", src.randint(0, n - 1)]
            return env.gen_item(src)

        def a_key():
            if m and src.chance(0.7):
                return ["keyof", src.randint(0, n - 1)]
            return src.choice(["a", "b", "c", "d", "zz", 1, 42])

        op = {"op": name}
        if name in ("getitem_idx", "delitem_idx", "pop_idx"):
            op["i"] = idx()
        elif name == "getitem_slice":
            op["s"] = [src.choice([None, 0, 1, -1, -2]), src.choice([None, 1, 2, -1, 9]), src.choice([None, None, 2, -1])]
            if src.chance(0.05):
                op["chain"] = 1100  # ... and the result is copied / extended that many times over (a sliding window)
        elif name in ("getitem_key", "delitem_key", "get", "index_for_key"):
            op["k"] = a_key()
        elif name == "setitem_idx":
            op["i"], op["v"] = idx(), item()
        elif name == "setitem_key":
            op["k"], op["v"] = a_key(), item()
        elif name == "insert":
            op["i"], op["v"] = src.randint(-n - 1, n + 1), item()
            if src.chance(0.1):
                op["i"] = a_key()  # not a position: a plain list refuses it, and so must this one, without a trace
        elif name == "append":
            op["v"] = item()
        elif name in ("extend", "iadd", "add", "radd"):
            op["vs"] = [env.gen_item(src) for _ in range(src.randint(0, 3))]
            if bad and op["vs"]:
                op["vs"][src.randint(0, len(op["vs"]) - 1)] = env.gen_bad_item(src)
            if name == "add" and src.chance(0.15):
                op["vs"] = 5  # not a sequence
            elif src.chance(0.3):
                op["as_keyed"] = True  # the operand is itself an (untyped) KeyedList sharing the key function
        elif name in ("remove", "contains", "index", "count"):
            op["v"] = existing_item_ref() if not bad else env.gen_bad_item(src)
            if name == "contains" and src.chance(0.3):
                op["v"] = a_key()
        elif name == "eq":
            op["other"] = src.choice(["same_list", "same_keyed", "shorter", "str"])
        elif name == "setitem_slice":
            op["vs"] = [env.gen_item(src)]
        return op

    # -- resolution of references into (real arg, model arg) -----------------------------------
    @staticmethod
    def resolve(env, m, v):
        if isinstance(v, list) and v and v[0] == "ref":
            if not m:
                return "zz"
            return m[v[1] % len(m)]
        if isinstance(v, list) and v and v[0] == "keyof":
            if not m:
                return "zz"
            return env.key(m[v[1] % len(m)])
        return env.build(v)

    # -- model ---------------------------------------------------------------------------
    def model_apply(self, env, m, op, args):
        """-> (kind, value, new_model) ; kind in ok|IndexError|KeyError|ValueError|TypeError|RuntimeError|any_error"""
        name = op["op"]
        key = env.key
        keys = [key(x) for x in m]

        def check_new(v, replacing=None, pending=()):
            """Validation of a new item: -> error kind or None."""
            if not env.keyable(v):
                return "TypeError" if env.universe not in ("tuple_keyfn", "tuple_typed") else "any_error"
            if not env.type_ok(v):
                return "TypeError"
            k = key(v)
            others = [kk for i, kk in enumerate(keys) if i != replacing] + [key(p) for p in pending]
            if k in others:
                return "ValueError"
            return None

        if name == "getitem_idx":
            try:
                return "ok", m[op["i"]], m
            except IndexError:
                return "IndexError", None, m
        if name == "getitem_slice":
            s = slice(*op["s"])
            try:
                return "ok", m[s], m
            except ValueError:
                return "ValueError", None, m
        if name in ("getitem_key", "get", "index_for_key", "delitem_key", "setitem_key"):
            k = args["k"]
            if isinstance(k, int) and not isinstance(k, bool) and name in ("getitem_key", "delitem_key", "setitem_key"):
                return "skip", None, m  # an int subscript is an index by design
            try:
                hash(k)
            except TypeError:
                return "TypeError", None, m
            pos = keys.index(k) if k in keys else None
            if name == "get":
                return "ok", (m[pos] if pos is not None else None), m
            if pos is None:
                return "KeyError", None, m
            if name == "getitem_key":
                return "ok", m[pos], m
            if name == "index_for_key":
                return "ok", pos, m
            if name == "delitem_key":
                return "ok", None, m[:pos] + m[pos + 1:]
            v = args["v"]
            err = check_new(v, replacing=pos)
            if err:
                return err, None, m
            nm = list(m)
            nm[pos] = v
            return "ok", None, nm
        if name == "setitem_idx":
            i, v = op["i"], args["v"]
            if not -len(m) <= i < len(m):
                return "IndexError", None, m
            err = check_new(v, replacing=i % len(m))
            if err:
                return err, None, m
            nm = list(m)
            nm[i] = v
            return "ok", None, nm
        if name == "delitem_idx":
            if not -len(m) <= op["i"] < len(m):
                return "IndexError", None, m
            nm = list(m)
            del nm[op["i"]]
            return "ok", None, nm
        if name == "insert":
            v = args["v"]
            pos = self.resolve(env, m, op["i"])
            if isinstance(pos, bool) or not isinstance(pos, int):
                return "any_error", None, m  # like list.insert: a position is an integer
            err = check_new(v)
            if err:
                return err, None, m
            nm = list(m)
            nm.insert(pos, v)
            return "ok", None, nm
        if name == "append":
            v = args["v"]
            err = check_new(v)
            if err:
                return err, None, m
            return "ok", None, m + [v]
        if name in ("extend", "iadd"):
            vs = args["vs"]
            pending = []
            for v in vs:
                err = check_new(v, pending=pending)
                if err:
                    return err, None, m
                pending.append(v)
            return "ok", None, m + pending
        if name in ("add", "radd"):
            vs = args["vs"]
            if not isinstance(vs, list):
                return "TypeError", None, m
            return "concat", (m + vs if name == "add" else vs + m), m
        if name == "pop":
            if not m:
                return "IndexError", None, m
            return "ok", m[-1], m[:-1]
        if name == "pop_idx":
            if not -len(m) <= op["i"] < len(m):
                return "IndexError", None, m
            nm = list(m)
            v = nm.pop(op["i"])
            return "ok", v, nm
        if name in ("remove", "index", "count", "contains"):
            v = args["v"]
            hits = [i for i, x in enumerate(m) if _list_eq(x, v)]  # by value = Python equality, as a plain list
            if name == "count":
                return "ok", len(hits), m
            if name == "contains":
                iskey = False
                try:
                    iskey = v in keys
                except TypeError:
                    pass
                return "ok", bool(hits) or iskey, m
            if not hits:
                return "ValueError", None, m
            if name == "index":
                return "ok", hits[0], m
            return "ok", None, m[:hits[0]] + m[hits[0] + 1:]
        if name == "reverse":
            return "ok", None, list(reversed(m))
        if name == "clear":
            return "ok", None, []
        if name == "eq":
            return "eq", None, m
        if name in ("setitem_slice", "delitem_slice"):
            return "RuntimeError", None, m
        raise HarnessError(name)

    # -- real ------------------------------------------------------------------------------
    def real_apply(self, env, l, op, args, m):
        name = op["op"]
        if name == "getitem_idx":
            return l[op["i"]]
        if name == "getitem_slice":
            return l[slice(*op["s"])]
        if name == "getitem_key":
            return l[args["k"]]
        if name == "get":
            return l.get(args["k"])
        if name == "index_for_key":
            return l.index_for_key(args["k"])
        if name == "delitem_key":
            del l[args["k"]]
            return None
        if name == "setitem_key":
            l[args["k"]] = args["v"]
            return None
        if name == "setitem_idx":
            l[op["i"]] = args["v"]
            return None
        if name == "delitem_idx":
            del l[op["i"]]
            return None
        if name == "insert":
            return l.insert(self.resolve(env, m, op["i"]), args["v"])
        if name == "append":
            return l.append(args["v"])
        if name == "extend":
            return l.extend(self.operand(env, op, args["vs"]))
        if name == "iadd":
            l2 = l
            l2 += self.operand(env, op, args["vs"])
            if l2 is not l:
                raise AssertionError("+= returned a different object")
            return None
        if name == "add":
            return l + self.operand(env, op, args["vs"])
        if name == "radd":
            return args["vs"] + l
        if name == "pop":
            return l.pop()
        if name == "pop_idx":
            return l.pop(op["i"])
        if name == "remove":
            return l.remove(args["v"])
        if name == "index":
            return l.index(args["v"])
        if name == "count":
            return l.count(args["v"])
        if name == "contains":
            return args["v"] in l
        if name == "reverse":
            return l.reverse()
        if name == "clear":
            return l.clear()
        if name == "eq":
            o = op["other"]
            if o == "same_list":
                return [l == list(m), l != list(m)]
            if o == "same_keyed":
                return [l == env.new(list(m)), False]
            if o == "shorter":
                return [l == list(m)[:-1] if m else l == [1], None]
            return [l == "hi", None]
        if name == "setitem_slice":
            l[0:1] = args["vs"]
            return None
        if name == "delitem_slice":
            del l[0:1]
            return None
        raise HarnessError(name)

    @staticmethod
    def operand(env, op, vs):
        """Plain list operand, or -- when the op says so and it can be built -- an untyped KeyedList of the
        same items sharing the key function (wrong-typed items included: an untyped container accepts them)."""
        if not op.get("as_keyed") or not isinstance(vs, list):
            return vs
        from spec_classes.types import KeyedList

        try:
            env.faults.begin(None)
            return KeyedList(list(vs), key=env.keyfn_real) if env.keyfn_real is not None else KeyedList(list(vs))
        except Exception:
            return vs

    # -- public reads ---------------------------------------------------------------------------
    def observe_mismatch(self, env, l, m):
        """Compare every public read with the model; -> description of first mismatch or None."""
        try:
            items = list(l)
            if len(items) != len(m) or any(a is not b and not item_eq(a, b) for a, b in zip(items, m)):
                return f"iteration {strip_addr(repr(items))[:120]} != model {strip_addr(repr(m))[:120]}"
            if any(a is not b for a, b in zip(items, m)):
                return "iteration yields equal but not identical items"
            if len(l) != len(m):
                return f"len {len(l)} != {len(m)}"
            mk = [env.key(x) for x in m]
            if set(l.keys()) != set(mk) or len(list(l.keys())) != len(mk):
                return f"keys() {sorted(map(repr, l.keys()))} != linear scan {sorted(map(repr, mk))}"
            its = list(l.items())
            if len(its) != len(m) or any(not (k in mk and v is m[mk.index(k)]) for k, v in its):
                return "items() disagrees with linear scan"
            for pos, (k, x) in enumerate(zip(mk, m)):
                if not isinstance(k, int):
                    if l[k] is not x:
                        return f"l[{k!r}] is not the item at position {pos}"
                if l.get(k) is not x:
                    return f"get({k!r}) is not the item at position {pos}"
                if l.index_for_key(k) != pos:
                    return f"index_for_key({k!r}) = {l.index_for_key(k)} != {pos}"
                if l[pos] is not x:
                    return f"l[{pos}] is not the model item"
            if l.get("__missing__") is not None:
                return "get(missing) is not None"
            # internal pair must be coherent too (public `keys`/`items` are views of it)
            return None
        except Exception as e:  # reads must never raise
            return f"read raised {type(e).__name__}: {strip_addr(str(e))[:100]}"

    # -- driver ---------------------------------------------------------------------------------------
    def drive(self, ctx):
        src = ctx.src
        if ctx.replay:
            c = ctx.case_in
            universe, init, ops_in = c["universe"], c["init"], c["ops"]
        else:
            universe = src.choice(UNIVERSES)
            init = None
            ops_in = None
        faults = Faults()
        env = Env(universe, faults)
        if init is None:
            init = []
            seen = set()
            for _ in range(src.randint(0, 4)):
                it = env.gen_item(src)
                k = repr(env.key(env.build(it)))
                if k not in seen:
                    seen.add(k)
                    init.append(it)
        ctx.case.update({"universe": universe, "init": init, "ops": []})
        m = [env.build(x) for x in init]
        faults.begin(None)
        try:
            l = env.new(list(m))
        except BaseException as e:  # noqa: BLE001 (incl. the library's BaseTypeError): conforming, uniquely keyed items
            if type(e).__name__ in ("KeyboardInterrupt", "SystemExit"):
                raise
            ctx.violate({"invariant": "construction_from_conforming_items_succeeds", "universe": universe, "exc": type(e).__name__},
                        {"msg": strip_addr(str(e))[:200]})
            return
        mm = self.observe_mismatch(env, l, m)
        if mm:
            ctx.violate({"invariant": "reads_agree_with_model", "op": "construct", "universe": universe}, {"mismatch": mm})
            return
        n_ops = len(ops_in) if ctx.replay else src.randint(*self.N_OPS[ctx.tier])
        for idx in range(n_ops):
            op = ops_in[idx] if ctx.replay else self.gen_op(src, env, m)
            ctx.case["ops"].append(op)
            l, m = self.step(ctx, env, faults, l, m, op, idx)
            if l is None:
                return

    def step(self, ctx, env, faults, l, m, op, idx):
        universe = env.universe
        name = op["op"]
        j = 1
        while True:
            args = {k: (self.resolve(env, m, v) if k in ("v", "k") else
                        ([self.resolve(env, m, x) for x in v] if isinstance(v, list) and k == "vs" else v))
                    for k, v in op.items() if k in ("v", "k", "vs")}
            kind, want, nm = self.model_apply(env, m, op, args)
            if kind == "skip":
                ctx.log(idx, name, "skip")
                return l, m
            plan = ("cb", j) if env.keyfn_real is not None else None
            faults.begin(plan)
            got_exc, got = None, None
            try:
                got = self.real_apply(env, l, op, args, m)
            except AssertionError as e:
                ctx.violate({"invariant": "iadd_returns_self", "op": name, "universe": universe}, {"msg": str(e)}, idx)
            except BaseException as e:  # noqa: BLE001
                if type(e).__name__ in ("KeyboardInterrupt", "SystemExit", "RecursionError"):
                    raise
                got_exc = e
            faults.end()
            fired = faults.fired
            ctx.evaluations += 1
            faults.begin(None)
            n = len(m)
            icls = "-"
            if "i" in op:
                i = op["i"]
                icls = "non_int" if (isinstance(i, bool) or not isinstance(i, int)) else \
                    "neg" if -n <= i < 0 else "ok" if 0 <= i < n else "oob"
            outcome = ("fault" if fired else "") + (type(got_exc).__name__ if got_exc else "ok")
            ctx.cell(universe, name, min(n, 5), icls, outcome)
            sig = {"op": name, "universe": universe}
            if fired and got_exc is not None:
                # faulted execution raised: container must be exactly as before
                ctx.bump("fired_cb")
                mm = self.observe_mismatch(env, l, m)
                if mm:
                    ctx.violate(dict(sig, invariant="unchanged_after_raise", fault="keyfn"),
                                {"op": op, "j": j, "mismatch": mm, "exc": type(got_exc).__name__}, idx)
                    # resynchronise: rebuild the real container from the model
                    l = env.new(list(m))
                j += 1
                if j > 60:
                    break
                continue
            # un-faulted (or swallowed-fault) execution: compare with the model
            if kind in ("IndexError", "KeyError", "ValueError", "TypeError", "RuntimeError", "any_error"):
                if got_exc is None:
                    ctx.violate(dict(sig, invariant="must_raise", want=kind), {"op": op, "got": strip_addr(repr(got))[:120]}, idx)
                    l = env.new(list(m))
                elif kind != "any_error" and type(got_exc).__name__ != kind and not (
                        kind == "TypeError" and type(got_exc).__name__ == "BaseTypeError"):
                    ctx.violate(dict(sig, invariant="exception_class", want=kind, got=type(got_exc).__name__),
                                {"op": op, "msg": strip_addr(str(got_exc))[:160]}, idx)
                mm = self.observe_mismatch(env, l, m)
                if mm:
                    ctx.violate(dict(sig, invariant="unchanged_after_raise", fault="none", exc=kind),
                                {"op": op, "mismatch": mm}, idx)
                    l = env.new(list(m))
                break
            if kind == "concat":
                # `+` / reversed `+`: result must be the concatenation (or ValueError/TypeError when the
                # concatenation cannot be a KeyedList); operands unchanged
                if got_exc is None:
                    if not (hasattr(got, "__len__") and list(got) == list(want) and all(a is b for a, b in zip(list(got), want))):
                        ctx.violate(dict(sig, invariant="result_value"), {"op": op, "got": strip_addr(repr(got))[:160],
                                                                         "want": strip_addr(repr(want))[:160]}, idx)
                    elif type(got).__name__ == "KeyedList":
                        mm = self.observe_mismatch(env, got, list(want))
                        if mm:
                            ctx.violate(dict(sig, invariant="concatenation_reads_agree_with_model"), {"op": op, "mismatch": mm}, idx)
                else:
                    wk = []
                    legit = False
                    for x in want:
                        if not env.keyable(x):
                            legit = True
                            break
                        wk.append(env.key(x))
                    try:
                        if len(set(map(repr, wk))) != len(wk) or len(set(map(repr, want))) != len(want):
                            legit = True
                    except Exception:
                        legit = True
                    if not legit or not isinstance(got_exc, (ValueError, TypeError)):
                        ctx.violate(dict(sig, invariant="unexpected_exception", got=type(got_exc).__name__),
                                    {"op": op, "msg": strip_addr(str(got_exc))[:160]}, idx)
                mm = self.observe_mismatch(env, l, m)
                if mm:
                    ctx.violate(dict(sig, invariant="operand_unchanged"), {"op": op, "mismatch": mm}, idx)
                    l = env.new(list(m))
                break
            if got_exc is not None:
                ctx.violate(dict(sig, invariant="unexpected_exception", got=type(got_exc).__name__),
                            {"op": op, "msg": strip_addr(str(got_exc))[:160], "model_len": len(m)}, idx)
                mm = self.observe_mismatch(env, l, m)
                if mm:
                    ctx.violate(dict(sig, invariant="unchanged_after_raise", fault="none", exc=type(got_exc).__name__),
                                {"op": op, "mismatch": mm}, idx)
                l = env.new(list(m))
                break
            # success on both sides
            if kind == "eq":
                exp = {"same_list": [True, False], "same_keyed": [True, False]}.get(op["other"])
                if exp and (got[0] is not exp[0] or (op["other"] == "same_list" and got[1] is not exp[1])):
                    ctx.violate(dict(sig, invariant="result_value"), {"op": op, "got": repr(got)}, idx)
                if exp is None and got[0] is not False:
                    ctx.violate(dict(sig, invariant="result_value"), {"op": op, "got": repr(got)}, idx)
            elif name == "getitem_slice":
                if not (type(got).__name__ == "KeyedList" and len(got) == len(want) and all(a is b for a, b in zip(list(got), want))):
                    ctx.violate(dict(sig, invariant="result_value"), {"op": op, "got": strip_addr(repr(got))[:160]}, idx)
                else:
                    # the slice is a KeyedList in its own right: its access by key agrees with a linear scan of *it*
                    mm = self.observe_mismatch(env, got, list(want))
                    if mm:
                        ctx.violate(dict(sig, invariant="slice_reads_agree_with_model"), {"op": op, "mismatch": mm}, idx)
                    elif op.get("chain"):
                        # a plain list can be sliced and concatenated for ever: so can the containers derived from this one
                        env.faults.begin(None)
                        try:
                            r = got
                            for i in range(op["chain"]):
                                r = r[:] if i % 7 else r + []
                            mm = self.observe_mismatch(env, r, list(want))
                            if mm:
                                ctx.violate(dict(sig, invariant="slice_reads_agree_with_model", generation=op["chain"]),
                                            {"op": op, "mismatch": mm}, idx)
                        except Exception as e:  # noqa: BLE001  (RecursionError included)
                            ctx.violate(dict(sig, invariant="derived_container_usable", exc=type(e).__name__),
                                        {"op": op, "msg": strip_addr(str(e))[:120]}, idx)
            elif name in ("getitem_idx", "getitem_key", "get", "pop", "pop_idx"):
                if got is not want and not (isinstance(want, (int, str)) and got == want and type(got) is type(want)):
                    ctx.violate(dict(sig, invariant="result_value"), {"op": op, "got": strip_addr(repr(got))[:120],
                                                                     "want": strip_addr(repr(want))[:120]}, idx)
            elif name in ("index_for_key", "index", "count", "contains"):
                if got != want or type(got) is not type(want):
                    ctx.violate(dict(sig, invariant="result_value"), {"op": op, "got": repr(got), "want": repr(want)}, idx)
            m = nm
            mm = self.observe_mismatch(env, l, m)
            if mm:
                ctx.violate(dict(sig, invariant="reads_agree_with_model"), {"op": op, "mismatch": mm}, idx)
                l = env.new(list(m))
            else:
                # keys() / items() are ordered views: a linear scan of the list yields the keys in list order
                try:
                    mk = [env.key(x) for x in m]
                    if list(l.keys()) != mk or [k for k, _ in l.items()] != mk:
                        ctx.violate(dict(sig, invariant="key_views_in_list_order"),
                                    {"op": op, "keys": strip_addr(repr(list(l.keys())))[:120], "scan": strip_addr(repr(mk))[:120]}, idx)
                        l = env.new(list(m))  # (a fresh container is in order: the next divergence is attributed to its own step)
                except Exception:  # noqa: BLE001  (unkeyable model items are reported by observe_mismatch)
                    pass
            break
        ctx.log(idx, name, abs_value(list(m)))
        return l, m


CHECK = C13
