"""
C10 -- equality, copying and repr are coherent and total.

Invariants over the live pool of a seeded history (survivors of faulted operations included;
no fault or schedule bears on the relation itself): == is reflexive, symmetric, transitive and
equals the reference attribute-wise comparison (compare=False ignored, missing equals only
missing, bound methods compared by function); deepcopy(x) == x; re-constructing an instance
from its own attribute values gives an equal instance; every copy-on-write step supplies a
pair differing in exactly the attributes the helper changed -- at every declaration position
and after every kind of preceding attribute (bound methods, functions, classes, modules);
repr never raises (missing values, self references) and lists exactly the repr-enabled
attributes in declaration order.
"""

import copy
import inspect

from ..core import strip_addr
from ..grammar import ALL_KINDS
from ..history import HistoryCheck, is_inplace, method_kind, state_digest
from ..snap import abs_value, is_spec_instance

SPECIAL_VALUES = [["bmeth", ["h1", "m1"]], ["bmeth", ["h2", "m1"]], ["bmeth", ["h1", "m2"]], ["func", "inc"], ["func", "neg"],
                  ["cls", "int"], ["cls", "leaf"], ["mod", "os"], ["mod", "sys"], 3, "s", ["list", [1]], ["box", 1]]


def cmp_key(v):
    """Reference notion of 'equal attribute values'."""
    if inspect.ismethod(v):
        return ["method", id(v.__func__)]
    if inspect.isfunction(v) or inspect.isbuiltin(v) or inspect.isclass(v) or inspect.ismodule(v):
        return ["identity", id(v)]
    if isinstance(v, float) and v != v:
        return ["nan", id(v)]  # NaN equals nothing but the very same object (identity-then-equality, as in containers)
    if isinstance(v, (int, float)) and not isinstance(v, bool) or isinstance(v, bool):
        return ["num", repr(float(v))]  # Python number equality: 2 == 2.0 == True + 1
    # plain Python equality semantics: dicts (and the key index of keyed containers) ignore insertion order
    if isinstance(v, dict):
        return ["dict", sorted(([cmp_key(k), cmp_key(x)] for k, x in v.items()), key=repr)]
    if isinstance(v, (list, tuple)):
        return [type(v).__name__, [cmp_key(x) for x in v]]
    if isinstance(v, (set, frozenset)):
        return ["set", sorted((cmp_key(x) for x in v), key=repr)]
    if type(v).__name__ == "KeyedList" and "_list" in getattr(v, "__dict__", {}):
        return ["list", [cmp_key(x) for x in v.__dict__["_list"]]]  # KeyedList == list compares the lists
    if type(v).__name__ == "KeyedSet" and "_dict" in getattr(v, "__dict__", {}):
        return ["KeyedSet", cmp_key(v.__dict__["_dict"])]
    if is_spec_instance(v):
        return ["spec", type(v).__name__, sorted(([k, cmp_key(x)] for k, x in v.__dict__.items()), key=repr)]
    if type(v).__name__ == "Box":
        return ["Box", cmp_key(v.v)]
    return abs_value(v)


def top_level_names(r):
    """Attribute names listed at nesting depth 1 of a spec-class repr."""
    names = []
    depth = 0
    i = 0
    n = len(r)
    tok = ""
    in_str = None
    while i < n:
        ch = r[i]
        if in_str:
            if ch == "\\":
                i += 2
                continue
            if ch == in_str:
                in_str = None
            i += 1
            continue
        if ch in "'\"":
            in_str = ch
        elif ch in "([{<":
            depth += 1
            tok = ""
        elif ch in ")]}>":
            depth -= 1
            tok = ""
        elif depth == 1:
            if ch == "=":
                t = tok.strip().split(",")[-1].strip()
                if t.isidentifier():
                    names.append(t)
                tok = ""
            else:
                tok += ch
        i += 1
    return names


class C10(HistoryCheck):
    PROP = "C10"
    LEVEL = "exploration"
    RUNS = {"quick": 1200, "thorough": 25000}
    PROFILE = {"kinds": ALL_KINDS + ["any", "any", "any"], "allow_frozen": False, "allow_class_dnc": False,
               "allow_init_false": True, "n_attrs": (3, 7)}
    OPGEN = {"p_bad": 0.1, "p_inplace": 0.35, "exclude_fns": ["missing", "tolist"],
             "weights": {"new": 4, "scalar": 7, "element": 6, "toplevel": 3, "set": 3, "del": 1.5, "get": 0.5,
                         "deepcopy": 1.5, "nested": 1}}
    N_OPS = {"quick": (6, 20), "thorough": (8, 32)}
    RULE = ("after every step of a seeded history (classes also hold bound methods -- of harness objects, of the instance itself, "
            "of an equal twin --, functions, classes, modules, NaN, and self references directly or through list / dict / KeyedList "
            "/ KeyedSet): seeded pairs / triples of the live pool (same class, class and subclass) are compared with == / != in "
            "both directions and against the reference attribute-wise comparison; deepcopy and re-construction give equal "
            "instances; each copy-on-write result is compared with its receiver; repr is parsed. evaluations = comparisons + "
            "reprs; distinct_nontrivial = distinct (relation, class pair, position of the first differing attribute, kinds of the "
            "attributes preceding it, verdict).")

    def next_op(self, ctx, world, gen):
        s = ctx.src
        if world.insts and s.chance(0.22):
            iid = gen.pick_inst()
            inst = world.insts[iid]
            role = world.role_of(inst)
            anys = [n for n, a in world.info(role).items() if a["kind"] == "any"]
            if anys:
                v = s.choice(SPECIAL_VALUES + [["selfref", "direct"], ["selfref", "list"], ["selfref", "klist"], ["selfref", "dict"], ["selfref", "kset"],
                                               ["ownmeth", "self"], ["ownmeth", "twin"]])
                return {"op": "set", "on": {"i": iid}, "a": s.choice(anys), "v": v, "id": world.fresh_id()}
        if world.insts and s.chance(0.05):
            # a float attribute holds NaN: a value that is not equal to itself (equality must stay reflexive all the same)
            iid = gen.pick_inst()
            role = world.role_of(world.insts[iid])
            fl = [n for n, a in world.info(role).items() if a["kind"] == "float" and a.get("flags", {}).get("init") is not False]
            if fl:
                return {"op": "set", "on": {"i": iid}, "a": s.choice(fl), "v": ["float", "nan"], "id": world.fresh_id()}
        if world.insts and s.chance(0.08):
            # nested keyed item loses its key attribute (legal: `del item.k`); the parent's repr must cope
            iid = gen.pick_inst()
            inst = world.insts[iid]
            role = world.role_of(inst)
            for n, a in world.info(role).items():
                cur = inst.__dict__.get(n)
                if a["kind"] == "list_kitem" and cur:
                    return {"op": "del", "on": {"i": iid, "path": [["a", n], ["i", 0]]}, "a": "k", "id": world.fresh_id()}
                if a["kind"] == "dict_kitem" and cur:
                    k0 = next(iter(cur))
                    return {"op": "del", "on": {"i": iid, "path": [["a", n], ["k", k0]]}, "a": "k", "id": world.fresh_id()}
        return gen.gen()

    def step(self, ctx, world, op, idx):
        if op["op"] == "set" and isinstance(op.get("v"), list) and op["v"] and op["v"][0] == "selfref":
            # a self reference is installed only for the duration of the repr check (the statement asks for repr
            # to cope with self-referential structures; copying / comparing cycles is not claimed anywhere)
            tgt = world.resolve(op["on"])
            how = op["v"][1]
            val = tgt if how == "direct" else [tgt]
            if how == "dict":
                val = {"me": tgt}
            elif how == "klist":
                try:  # a cycle that runs through a KeyedList (keyed by the instance's key attribute, or by identity)
                    from spec_classes.types import KeyedList
                    val = KeyedList([tgt], key=(lambda o: getattr(o, "name", None) or id(o)))
                except Exception:  # noqa: BLE001
                    val = [tgt]
            elif how == "kset":
                from spec_classes.types import KeyedSet
                val = KeyedSet([tgt], key=(lambda o: getattr(o, "name", None) or id(o)))
            had = op["a"] in tgt.__dict__
            old = tgt.__dict__.get(op["a"])
            tgt.__dict__[op["a"]] = val
            try:
                self.check_repr(ctx, world, tgt, idx, op, selfref=op["v"][1])
            finally:
                if had:
                    tgt.__dict__[op["a"]] = old
                else:
                    tgt.__dict__.pop(op["a"], None)
            ctx.log(op["id"], "selfref")
            return None
        elif op["op"] == "set" and isinstance(op.get("v"), list) and op["v"] and op["v"][0] == "ownmeth":
            # a method of the class itself as attribute value (a callback slot filled with one of the instance's own
            # methods): bound to the holder, or to a separate instance that is equal to the holder right now
            tgt = world.resolve(op["on"])
            owner = tgt if op["v"][1] == "self" else copy.deepcopy(tgt)
            setattr(tgt, op["a"], owner.update)
            ctx.log(op["id"], "ownmeth", op["v"][1], state_digest(world))
            out, X, R = None, tgt, None
        else:
            prep = world.prepare(op)
            out = world.run(prep)
            world.commit(op, prep, out)
            ctx.log(op["id"], out.summary(), state_digest(world))
            X = prep.target
            R = out.value if out.status == "ok" else None
        pool = [v for v in world.insts.values() if world.role_of(v) in ("host", "sub")]
        if not pool:
            return out
        # (a) copy-on-write pair
        mk = method_kind(world, op)
        if mk and out is not None and out.status == "ok" and is_spec_instance(R) and R is not X \
                and world.role_of(R) in ("host", "sub") and is_spec_instance(X) and world.role_of(X) == world.role_of(R):
            self.check_pair(ctx, world, X, R, idx, "cow_pair", op)
        # (b) seeded pairs / triples (decisions are recorded in the op so that replay does not need the PRNG)
        if ctx.replay:
            picks = op.get("picks", [])
        else:
            k = len(pool)
            picks = [[ctx.src.randint(0, k - 1), ctx.src.randint(0, k - 1), ctx.src.randint(0, k - 1)] for _ in range(2)]
            op["picks"] = picks
        for a, b, c in picks:
            x, y, z = pool[a % len(pool)], pool[b % len(pool)], pool[c % len(pool)]
            self.check_pair(ctx, world, x, y, idx, "pool_pair", op)
            self.check_transitive(ctx, world, x, y, z, idx, op)
        # (c) per-instance checks on the most recent instance and on the result
        for inst in ([pool[-1]] + ([R] if is_spec_instance(R) and world.role_of(R) in ("host", "sub") else [])):
            self.check_single(ctx, world, inst, idx, op)
        return out

    # -- reference comparison ----------------------------------------------------------------
    def ref_equal(self, world, x, y):
        """-> (verdict, position of first differing compared attribute, kinds before it)"""
        tx, ty = type(x), type(y)
        if not (isinstance(y, tx) or isinstance(x, ty)):
            return False, -1, ()
        # attribute set: of the more derived class
        role = world.role_of(x) if isinstance(x, ty) else world.role_of(y)
        info = world.info(role)
        kinds = []
        for pos, (n, a) in enumerate(info.items()):
            if a.get("flags", {}).get("compare") is False:
                continue
            hx, hy = n in x.__dict__, n in y.__dict__
            vx = _value(x, n)
            vy = _value(y, n)
            if (vx is _ABSENT) != (vy is _ABSENT) or (vx is not _ABSENT and cmp_key(vx) != cmp_key(vy)):
                return False, pos, tuple(kinds)
            kinds.append(_vkind(vx))
        return True, -1, tuple(kinds)

    def check_pair(self, ctx, world, x, y, idx, rel, op):
        try:
            e1, e2 = (x == y), (y == x)
            n1, n2 = (x != y), (y != x)
        except RecursionError:
            return  # self-referential values: comparison of cycles is not part of the statement
        except Exception as e:
            ctx.violate({"invariant": "eq_total", "exc": type(e).__name__}, {"op": op, "msg": strip_addr(str(e))[:200]}, idx)
            return
        ctx.evaluations += 4
        try:
            want, pos, kinds = self.ref_equal(world, x, y)
        except RecursionError:
            return
        pair = f"{world.role_of(x)}-{world.role_of(y)}"
        ctx.cell(rel, pair, pos, kinds[-2:], want)
        if x is y and e1 is not True:
            ctx.violate({"invariant": "reflexive", "pair": pair}, {"op": op}, idx)
        if e1 is not e2:
            ctx.violate({"invariant": "symmetric", "pair": pair, "fwd": e1, "rev": e2}, {"op": op, "x": _short(x), "y": _short(y)}, idx)
        if (n1 is not (not e1)) or (n2 is not (not e2)):
            ctx.violate({"invariant": "ne_is_not_eq", "pair": pair}, {"op": op}, idx)
        same_cls = type(x) is type(y)
        if not same_cls and want is False and (e1 is True or e2 is True):
            # an instance of a class and one of its subclass: whatever "compatible" allows, operands whose compared
            # attributes differ (an attribute one of them does not have differs from any value) are never equal
            ctx.violate({"invariant": "unequal_attributes_never_equal", "pair": pair, "fwd": e1, "rev": e2},
                        {"op": op, "first_difference_at": pos, "x": _short(x), "y": _short(y)}, idx)
        if same_cls and e1 is not want:
            prev = kinds[-1] if kinds else "-"
            ctx.violate({"invariant": "eq_matches_attributewise_comparison", "pair": pair, "got": e1, "want": want,
                         "preceding_kind": prev if not want else "-"},
                        {"op": op, "first_difference_at": pos, "x": _short(x), "y": _short(y)}, idx)

    def check_transitive(self, ctx, world, x, y, z, idx, op):
        try:
            if (x == y) and (y == z) and not (x == z):
                ctx.violate({"invariant": "transitive"}, {"op": op, "x": _short(x), "y": _short(y), "z": _short(z)}, idx)
            ctx.evaluations += 3
        except RecursionError:
            pass

    def check_single(self, ctx, world, x, idx, op):
        self.check_repr(ctx, world, x, idx, op, selfref="-")
        role = world.role_of(x)
        info = world.info(role)
        if role == "sub":
            # the pair the pool rarely holds: a parent-class instance carrying exactly this instance's inherited values
            hinfo = world.info("host")
            if not any(a.get("flags", {}).get("init") is False for a in hinfo.values()):
                try:
                    twin = world.classes["host"](**{n: copy.deepcopy(x.__dict__[n]) for n in hinfo if n in x.__dict__})
                except RecursionError:
                    twin = None
                except Exception:
                    twin = None
                if twin is not None:
                    self.check_pair(ctx, world, twin, x, idx, "parent_twin", op)
                    try:
                        other = copy.deepcopy(x)
                    except Exception:  # noqa: BLE001 (deepcopy totality is judged below)
                        other = x
                    self.check_transitive(ctx, world, x, twin, other, idx, op)
        selfref = False
        # deepcopy(x) == x
        try:
            c = copy.deepcopy(x)
            ctx.evaluations += 1
            if not (c == x) or not (x == c):
                ctx.violate({"invariant": "deepcopy_equals_original"}, {"op": op, "x": _short(x), "copy": _short(c)}, idx)
        except RecursionError:
            return
        except Exception as e:
            ctx.violate({"invariant": "deepcopy_total", "exc": type(e).__name__}, {"op": op, "msg": strip_addr(str(e))[:200]}, idx)
        # re-construction from own attribute values
        if any(a.get("flags", {}).get("init") is False for a in info.values()):
            return
        if any(a.get("prepare_item") == "dbl" for a in info.values()):
            return  # a non-idempotent user preparer re-applies on construction: not the library's concern
        kw = {n: x.__dict__[n] for n in info if n in x.__dict__}
        try:
            y = type(x)(**kw)
            ctx.evaluations += 1
        except Exception:
            return
        missing_with_default = [n for n, a in info.items() if n not in x.__dict__ and a["default"][0] != "none"]
        if missing_with_default:
            return  # a deleted attribute re-acquires its default on construction: not the same state
        try:
            if not (x == y):
                ctx.violate({"invariant": "reconstruction_equals_original"}, {"op": op, "x": _short(x), "y": _short(y)}, idx)
        except RecursionError:
            pass

    def check_repr(self, ctx, world, x, idx, op, selfref):
        role = world.role_of(x)
        info = world.info(role)
        try:
            r = repr(x)
            ctx.evaluations += 1
            want = [n for n, a in info.items() if a.get("flags", {}).get("repr") is not False]
            got = top_level_names(r)
            if not r.startswith(type(x).__name__ + "("):
                ctx.violate({"invariant": "repr_shape"}, {"op": op, "repr": strip_addr(r)[:200]}, idx)
            elif got != want:
                ctx.violate({"invariant": "repr_lists_repr_enabled_attrs_in_order"},
                            {"op": op, "got": got, "want": want, "repr": strip_addr(r)[:300]}, idx)
            ctx.cell("repr", role, selfref, any(n not in x.__dict__ for n in info))
        except Exception as e:  # noqa: BLE001 (RecursionError included: repr must never raise)
            ctx.violate({"invariant": "repr_never_raises", "exc": type(e).__name__, "selfref": selfref},
                        {"op": op, "msg": strip_addr(str(e))[:200]}, idx)


_ABSENT = object()


def _value(x, n):
    """Observable attribute value: the instance's own, else a class-level default that shows through
    (attributes declared init=False are never copied onto instances), else absent."""
    if n in x.__dict__:
        return x.__dict__[n]
    try:
        v = inspect.getattr_static(type(x), n)
    except AttributeError:
        return _ABSENT
    if getattr(type(v), "__name__", "") == "_MissingType" or hasattr(type(v), "__get__"):
        return _ABSENT
    return v


def _vkind(v):
    if v is _ABSENT:
        return "absent"
    if inspect.ismethod(v):
        return "bound_method"
    if inspect.isfunction(v):
        return "function"
    if inspect.isclass(v):
        return "class"
    if inspect.ismodule(v):
        return "module"
    return type(v).__name__


def _short(x):
    try:
        return strip_addr(repr({k: (v if not is_spec_instance(v) else "<spec>") for k, v in x.__dict__.items()}))[:300]
    except Exception:
        return "?"


CHECK = C10
