"""
C18 -- Alias mirrors its target until overridden; passthrough writes reach the target.

Alias configurations passthrough x transform x fallback x path shape (plain, dotted,
["key"], mixed) on plain classes and on spec classes (where the alias is also a managed,
type-checked attribute), Alias and DeprecatedAlias.  Seeded sequences over {read / write /
delete alias, read / write / delete target, mutate a returned fallback, copy-on-write helper on
alias or target, deepcopy}; value, exception class and the list of warnings of every access are
compared with a two-variable reference model (target, local override) per instance.
"""

import copy
import warnings

from ..core import strip_addr
from ..faults import Faults, make_callback
from ..harness import Check

PATHS = {"plain": "target", "dotted": "inner.value", "item": 'data["k"]', "mixed": 'inner.data["k"]'}
# the key of an item step, as the dictionary sees it and as it is spelled in the path (the path grammar admits both quote
# characters and backslash escapes; every access through the alias must reach the entry the spelled literal denotes)
KEYS = {"k": ("k", '"k"'), "esc_quote": ('q"x', r'"q\"x"'), "esc_tab": ("a\tb", r'"a\tb"'), "single": ("sq", "'sq'"),
        "esc_bs": ("b\\s", r'"b\\s"'), "esc_uni": ("\u00e9", r'"\u00e9"')}
CUR = {"key": "k"}  # key of the run in progress (one run at a time per process)
_NONE = object()


def path_of(cfg):
    return PATHS[cfg["path"]].replace('"k"', KEYS[cfg.get("key", "k")][1])


class Inner:
    def __init__(self):
        self.data = {}

    def __deepcopy__(self, memo):
        new = Inner()
        new.__dict__.update(copy.deepcopy(self.__dict__, memo))
        return new


def build_host(cfg, faults):
    from spec_classes import Alias, DeprecatedAlias, spec_class

    transform = make_callback(faults, "transform", lambda x: x * 2) if cfg["transform"] else None
    kw = {"passthrough": cfg["passthrough"], "transform": transform}
    if cfg["fallback"]:
        kw["fallback"] = [0]
    A = DeprecatedAlias if cfg["deprecated"] else Alias
    al = A(path_of(cfg), **kw)
    ns = {"al": al, "__module__": "specsim.generated"}
    if cfg["host"] == "spec":
        ns["__annotations__"] = {"al": object if (cfg["fallback"] or True) else int, "target": int, "inner": Inner, "data": dict}
    cls = type("AHost", (), ns)
    if cfg["host"] == "spec":
        cls = spec_class(bootstrap=cfg.get("eager", True))(cls)
    return cls


def new_instance(cls, cfg):
    if cfg["host"] == "spec":
        return cls(inner=Inner(), data={})
    o = cls()
    o.inner = Inner()
    o.data = {}
    return o


class Model:
    """(target, override) per instance."""

    def __init__(self, cfg, target=_NONE, override=_NONE, holder=True):
        self.cfg = cfg
        self.target = target
        self.override = override
        self.holder = holder  # the intermediate object of a multi-step path (o.inner / o.data) exists

    def clone(self):
        return Model(self.cfg, self.target, self.override, self.holder)

    def read(self):
        c = self.cfg
        if not c["passthrough"] and self.override is not _NONE:
            return ("ok", self.override)
        if self.target is not _NONE:
            return ("ok", self.target * 2 if c["transform"] else self.target)
        if c["fallback"]:
            return ("ok", [0])
        return ("raise", (AttributeError,))

    def write(self, v):
        if self.cfg["passthrough"]:
            if not self.holder:
                return ("raise", (AttributeError, KeyError))
            self.target = v
        else:
            self.override = v
        return ("ok", None)

    def delete(self):
        if self.cfg["passthrough"]:
            if self.target is _NONE:
                return ("raise", (AttributeError, KeyError))
            self.target = _NONE
            return ("ok", None)
        if self.override is _NONE:
            return ("raise", (AttributeError,))
        self.override = _NONE
        return ("ok", None)


HOLDER = {"dotted": "inner", "item": "data", "mixed": "inner"}


def target_get(o, path):
    if path == "plain":
        return o.__dict__.get("target", _NONE)
    if HOLDER[path] not in o.__dict__:
        return _NONE  # no intermediate object: no target
    if path == "dotted":
        return o.inner.__dict__.get("value", _NONE)
    if path == "item":
        return o.data.get(CUR["key"], _NONE)
    return o.inner.data.get(CUR["key"], _NONE)


def target_set(o, path, v):
    if path == "plain":
        o.target = v
    elif path == "dotted":
        o.inner.value = v
    elif path == "item":
        o.data[CUR["key"]] = v
    else:
        o.inner.data[CUR["key"]] = v


def target_del(o, path):
    if path == "plain":
        del o.target
    elif path == "dotted":
        del o.inner.value
    elif path == "item":
        del o.data[CUR["key"]]
    else:
        del o.inner.data[CUR["key"]]


class C18(Check):
    PROP = "C18"
    LEVEL = "exploration"
    RUNS = {"quick": 3000, "thorough": 60000}
    N_OPS = {"quick": (4, 14), "thorough": (6, 20)}
    RULE = ("alias configurations (passthrough x transform x fallback x 4 path shapes x Alias / DeprecatedAlias x plain / spec host) "
            "x seeded sequences over {read / write / delete alias, read / write / delete target, mutate returned fallback, "
            "with_al / with_target / reset_al on spec hosts, deepcopy and continue on the copy}, some with an injected fault in the "
            "transform; value, exception class and warnings of every access compared with the two-variable model. evaluations = "
            "operations; distinct_nontrivial = distinct (configuration, operation, (target set?, override set?) before, outcome).")

    def gen_op(self, src, cfg):
        ks = [("read", 6), ("write", 4), ("delete", 2), ("t_write", 3), ("t_delete", 1.5), ("t_read", 1), ("mutate_fallback", 1),
              ("deepcopy", 1), ("switch", 1)]
        if cfg["path"] != "plain":
            ks += [("h_drop", 1.2), ("h_restore", 1.2)]  # the intermediate object of the path goes away / comes back
        if cfg["host"] == "spec":
            ks += [("with_al", 2), ("with_target", 1.5), ("reset_al", 1)]
        k = src.weighted(ks)
        op = {"k": k}
        if k in ("write", "with_al"):
            # None / falsy local overrides must shadow the target too (targets themselves stay ints)
            op["v"] = src.choice([1, 2, 3, 5, 0] + ([] if cfg["passthrough"] else [None, None]))
        elif k in ("t_write", "with_target"):
            op["v"] = src.choice([1, 2, 3, 5, 0])
        op["fault"] = cfg["transform"] and src.chance(0.1)
        return op

    def drive(self, ctx):
        src = ctx.src
        if ctx.replay:
            cfg, ops_in = ctx.case_in["cfg"], ctx.case_in["ops"]
        else:
            cfg = {"passthrough": src.chance(0.5), "transform": src.chance(0.5), "fallback": src.chance(0.5),
                   "path": src.choice(list(PATHS)), "deprecated": src.chance(0.3), "host": src.choice(["plain", "spec"]),
                   "eager": src.chance(0.6)}
            if cfg["path"] in ("item", "mixed") and src.chance(0.6):
                cfg["key"] = src.choice(sorted(KEYS))
            ops_in = None
        CUR["key"] = KEYS[cfg.get("key", "k")][0]
        ctx.case.update({"cfg": cfg, "ops": []})
        faults = Faults()
        faults.begin(None)
        with warnings.catch_warnings():
            warnings.simplefilter("ignore")
            cls = build_host(cfg, faults)
            objs = [new_instance(cls, cfg)]
        models = [Model(cfg)]
        cur = 0
        n_ops = len(ops_in) if ctx.replay else src.randint(*self.N_OPS[ctx.tier])
        for idx in range(n_ops):
            op = ops_in[idx] if ctx.replay else self.gen_op(src, cfg)
            ctx.case["ops"].append(op)
            cur = self.step(ctx, cfg, faults, objs, models, cur, op, idx)

    def step(self, ctx, cfg, faults, objs, models, cur, op, idx):
        k = op["k"]
        o, m = objs[cur], models[cur]
        path = cfg["path"]
        conf = f"p{int(cfg['passthrough'])}t{int(cfg['transform'])}f{int(cfg['fallback'])}:{path}:{'dep' if cfg['deprecated'] else 'alias'}:{cfg['host']}"
        state = (m.target is not _NONE, m.override is not _NONE)
        sig = {"conf": conf, "op": k, "target_set": state[0], "override_set": state[1]}
        if k == "switch":
            ctx.log(idx, k)
            return (cur + 1) % len(objs)
        # expected
        m0 = m.clone()
        new_obj = None
        if k == "read":
            exp = m.read()
        elif k == "write":
            exp = m.write(op["v"])
        elif k == "delete":
            exp = m.delete()
        elif k == "t_read":
            exp = ("ok", m.target) if m.target is not _NONE else ("ok", _NONE)
        elif k == "t_write":
            if not m.holder:
                exp = ("raise", (AttributeError, KeyError))
            else:
                m.target = op["v"]
                exp = ("ok", None)
        elif k == "h_drop":
            if not m.holder:
                exp = ("raise", (AttributeError,))
            else:
                m.holder, m.target = False, _NONE
                exp = ("ok", None)
        elif k == "h_restore":
            m.holder, m.target = True, _NONE
            exp = ("ok", None)
        elif k == "t_delete":
            if m.target is _NONE:
                exp = ("raise", (AttributeError, KeyError))
            else:
                m.target = _NONE
                exp = ("ok", None)
        elif k == "mutate_fallback":
            exp = m.read()
        elif k == "deepcopy":
            exp = ("ok", None)
        elif k in ("with_al", "with_target", "reset_al"):
            m2 = m.clone()
            if k == "with_al":
                exp = m2.write(op["v"])
            elif k == "with_target":
                if cfg["path"] == "plain":
                    m2.target = op["v"]  # (for the other path shapes host.target is unrelated to the alias)
                exp = ("ok", None)
            else:
                exp = m2.delete()
        # real
        faults.begin(("cb", 1) if op.get("fault") else None)
        got, exc = None, None
        with warnings.catch_warnings(record=True) as wlist:
            warnings.simplefilter("always")
            try:
                if k == "read":
                    got = o.al
                elif k == "write":
                    o.al = op["v"]
                elif k == "delete":
                    del o.al
                elif k == "t_read":
                    got = target_get(o, path)
                elif k == "t_write":
                    target_set(o, path, op["v"])
                elif k == "t_delete":
                    target_del(o, path)
                elif k == "h_drop":
                    delattr(o, HOLDER[path])
                elif k == "h_restore":
                    setattr(o, HOLDER[path], {} if HOLDER[path] == "data" else Inner())
                elif k == "mutate_fallback":
                    got = o.al
                    if isinstance(got, list):
                        got.append(99)  # must not leak into later reads
                        got = list(got[:-1])
                elif k == "deepcopy":
                    new_obj = copy.deepcopy(o)
                elif k == "with_al":
                    new_obj = o.with_al(op["v"])
                elif k == "with_target":
                    new_obj = o.with_target(op["v"])
                elif k == "reset_al":
                    new_obj = o.reset_al()
            except RecursionError:
                raise
            except Exception as e:
                exc = e
        faults.end()
        fired = faults.fired
        faults.begin(None)
        ctx.evaluations += 1
        outcome = ("fault:" if fired else "") + (type(exc).__name__ if exc else "ok")
        ctx.cell(conf, k, state, outcome)
        ctx.log(idx, k, outcome)
        if fired and exc is not None:
            # the transform raised: nothing may have changed
            models[cur] = m0
            m = m0
        else:
            if exp[0] == "raise":
                if exc is None:
                    ctx.violate(dict(sig, invariant="must_raise", want="/".join(c.__name__ for c in exp[1])),
                                {"op": op, "got": strip_addr(repr(got))[:80]}, idx)
                elif not isinstance(exc, exp[1]):
                    ctx.violate(dict(sig, invariant="exception_class", got=type(exc).__name__),
                                {"op": op, "msg": strip_addr(str(exc))[:200]}, idx)
                models[cur] = m0 if k not in ("with_al", "with_target", "reset_al") else m
                m = models[cur]
            elif exc is not None:
                ctx.violate(dict(sig, invariant="unexpected_exception", got=type(exc).__name__),
                            {"op": op, "msg": strip_addr(str(exc))[:200]}, idx)
                models[cur] = m0
                m = m0
            elif k in ("read", "mutate_fallback", "t_read"):
                want = exp[1]
                if (want is _NONE) != (got is _NONE) or (want is not _NONE and got != want):
                    ctx.violate(dict(sig, invariant="read_value"), {"op": op, "got": strip_addr(repr(got))[:80],
                                                                   "want": None if want is _NONE else repr(want)}, idx)
            if new_obj is not None and exc is None:
                if k == "deepcopy":
                    objs.append(new_obj)
                    models.append(m.clone())
                else:
                    if new_obj is o:
                        ctx.violate(dict(sig, invariant="copy_on_write_returns_new_instance"), {"op": op}, idx)
                    objs.append(new_obj)
                    models.append(m2)
                if len(objs) > 3:
                    objs.pop(0)
                    models.pop(0)
                    cur = max(0, cur - 1)
        # warnings: DeprecatedAlias warns on every access, Alias never
        if k in ("read", "write", "delete") and not (fired and exc is not None):
            cats = [w.category.__name__ for w in wlist]
            if cfg["deprecated"]:
                if cats.count("DeprecationWarning") < 1 or any(c != "DeprecationWarning" for c in cats):
                    ctx.violate(dict(sig, invariant="deprecated_alias_warns"), {"op": op, "warnings": cats}, idx)
            elif cats:
                ctx.violate(dict(sig, invariant="alias_does_not_warn"), {"op": op, "warnings": cats}, idx)
        # state agreement on every live instance: the target must be what the model says, and so must the alias view
        for oi, (oo, mm) in enumerate(zip(objs, models)):
            t = target_get(oo, path)
            if (t is _NONE) != (mm.target is _NONE) or (t is not _NONE and t != mm.target):
                ctx.violate(dict(sig, invariant="target_state", instance="current" if oi == cur else "other"),
                            {"op": op, "real": None if t is _NONE else repr(t), "model": None if mm.target is _NONE else repr(mm.target)}, idx)
                mm.target = t
        return cur


CHECK = C18
