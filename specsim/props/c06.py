"""
C06 -- element helpers edit list / dict / set attributes like the plain container operation.

Every element-helper call of a seeded history (all four verbs, every addressing mode,
contents grown by prior element operations incl. empty / singleton containers, falsy
elements 0 and '', equal elements at several positions, negative and out-of-range
indices, _insert at 0 / len / len+1) is executed against the real instance and against
`models.ElementModel`, a plain-container model written from the documentation.
"""

from ..core import strip_addr
from ..grammar import COLL_KINDS, FAMILY, ITEM_KIND
from ..history import HistoryCheck, is_inplace, method_kind, state_digest
from ..models import _NOARG, Elem, ElementModel, Raises, Unmodelled
from ..snap import abs_value, is_spec_instance


class FnRef:
    def __init__(self, name):
        self.name = name


def model_args(world, op):
    """Real argument values for the model; function valrefs become their pool names."""
    def conv(v):
        if isinstance(v, list) and v and v[0] == "fn":
            return FnRef(v[1])
        return world.build(v, False)
    return [conv(a) for a in op.get("args", [])], {k: conv(v) for k, v in op.get("kw", {}).items()}


def container_items(c, family, kind):
    if c is None:
        return None
    if family == "seq":
        return list(c.__dict__["_list"]) if type(c).__name__ == "KeyedList" else list(c)
    if family == "map":
        return list(c.items())
    if type(c).__name__ == "KeyedSet":
        return list(c.__dict__["_dict"].values())
    return list(c)


class C06(HistoryCheck):
    PROP = "C06"
    LEVEL = "exploration"
    RUNS = {"quick": 1500, "thorough": 30000}
    PROFILE = {"allow_frozen": False, "allow_class_dnc": False, "allow_init_false": False,
               "kinds": [k for k in COLL_KINDS if k != "list_optleaf"] + ["int", "str", "leaf"], "n_attrs": (2, 5)}  # (incl. List[Optional[int]], Dict[str, Optional[int]])
    OPGEN = {"p_bad": 0.12, "p_inplace": 0.45, "p_if_false": 0.0, "p_sentinel": 0.0, "exclude_fns": ["missing"],
             "weights": {"new": 2, "scalar": 1.5, "element": 14, "toplevel": 0.5, "set": 1, "del": 0.7, "get": 0.2,
                         "deepcopy": 0.3}}
    N_OPS = {"quick": (8, 24), "thorough": (10, 40)}
    RULE = ("each element-helper call of a seeded history is compared with a plain list/dict/set model of the documentation "
            "(append / replace / insert at index, assign key, add, replace by transformed value, remove by value / index / key, "
            "index-unless-element-type defaulting, key promotion, keyword construction / update of spec elements, item "
            "preparers). evaluations = element-helper executions the model covers; distinct_nontrivial = distinct (attribute "
            "kind, verb, addressing mode, container size 0/1/2/3+, target class (neg/zero/pos/oob/falsy/duplicate/missing), "
            "in-place flag, outcome).")

    def step(self, ctx, world, op, idx):
        mk = method_kind(world, op)
        if not (mk and mk[0] == "element") or op.get("kw", {}).get("_if") is False:
            return super().step(ctx, world, op, idx)
        fam_, verb, aname, akind = mk
        prep = world.prepare(op)
        X = prep.target
        role = world.role_of(X)
        info = world.info(role)[aname]
        family = FAMILY[akind]
        cur = X.__dict__.get(aname)
        before_items = container_items(cur, family, akind)
        model = ElementModel(info, world.build)
        margs, mkw = model_args(world, op)
        # function references -> names, as the model expects
        margs2 = [a.name if isinstance(a, FnRef) else a for a in margs]
        mkw2 = {k: (v.name if isinstance(v, FnRef) else v) for k, v in mkw.items()}
        expected = None
        exp_raise = None
        try:
            if verb == "transform":
                # positional: (target, fn?) ; keywords: attribute transforms (names) + flags
                pass
            expected = model.apply(cur, verb, margs2, {k: v for k, v in mkw2.items()})
        except Raises as r:
            exp_raise = r.classes
        except Unmodelled as u:
            ctx.bump("unmodelled")
            out = world.run(prep)
            world.commit(op, prep, out)
            ctx.log(op["id"], out.summary(), state_digest(world))
            return out
        out = world.run(prep)
        world.commit(op, prep, out)
        ctx.evaluations += 1
        inplace = is_inplace(op)
        n = len(before_items) if before_items is not None else -1
        addressing, tclass = self.classify(op, verb, family, before_items, margs2)
        ctx.cell(akind, verb, addressing, min(n, 3), tclass, inplace, out.status + ":" + str(out.exc_type()))
        sig = {"kind": akind, "verb": verb, "addressing": addressing, "target": tclass, "inplace": inplace,
               "container": "missing" if before_items is None else "empty" if not before_items else "nonempty"}
        if exp_raise is not None:
            if out.status == "ok":
                ctx.violate(dict(sig, invariant="missing_target_must_raise", want="/".join(c.__name__ for c in exp_raise)),
                            {"op": op, "before": strip_addr(repr(before_items))[:200]}, idx)
            elif not isinstance(out.exc, exp_raise):
                ctx.violate(dict(sig, invariant="exception_class", got=out.exc_type(),
                                 want="/".join(c.__name__ for c in exp_raise)),
                            {"op": op, "msg": strip_addr(str(out.exc))[:200]}, idx)
            ctx.log(op["id"], out.summary(), state_digest(world))
            return out
        if out.status != "ok":
            ctx.violate(dict(sig, invariant="unexpected_exception", got=out.exc_type()),
                        {"op": op, "msg": strip_addr(str(out.exc))[:200], "before": strip_addr(repr(before_items))[:200]}, idx)
            ctx.log(op["id"], out.summary(), state_digest(world))
            return out
        R = out.value
        if not is_spec_instance(R):
            ctx.violate(dict(sig, invariant="returns_instance"), {"op": op}, idx)
            return out
        if inplace and R is not X:
            ctx.violate(dict(sig, invariant="inplace_returns_receiver"), {"op": op}, idx)
        got_c = R.__dict__.get(aname)
        got_items = container_items(got_c, family, akind)
        want_type = {"seq": "KeyedList" if akind == "klist" else "list", "map": "dict",
                     "set": "KeyedSet" if akind == "kset" else "set"}[family]
        if got_c is None or type(got_c).__name__ != want_type:
            ctx.violate(dict(sig, invariant="container_created", got=type(got_c).__name__), {"op": op}, idx)
            return out
        if akind == "klist":
            # access by key must land on the element the list holds at that position (the key index is part of the
            # container the helper edited: a later helper that addresses the element by key starts from it)
            d = got_c.__dict__
            stale = [strip_addr(repr(k)) for k, v in d.get("_dict", {}).items()
                     if not any(v is e for e in d.get("_list", []))]
            if stale or len(d.get("_dict", {})) != len(d.get("_list", [])):
                ctx.violate(dict(sig, invariant="keyed_access_agrees_with_positions"),
                            {"op": op, "stale_keys": stale[:4], "before": strip_addr(repr(before_items))[:200]}, idx)
        mismatch = self.compare(family, akind, expected, got_items, inplace)
        if mismatch:
            ctx.violate(dict(sig, invariant="result_matches_plain_container_model", what=mismatch[0]),
                        {"op": op, "before": strip_addr(repr(before_items))[:300], "got": strip_addr(repr(got_items))[:300],
                         "want": strip_addr(repr([e.abs() for e in (expected.values() if isinstance(expected, dict) else expected)]))[:300],
                         "detail": mismatch[1]}, idx)
        ctx.log(op["id"], out.summary(), state_digest(world))
        return out

    @staticmethod
    def classify(op, verb, family, before_items, margs):
        kw = op.get("kw", {})
        n = len(before_items) if before_items is not None else 0
        if family == "seq":
            if verb == "with":
                if "_index" in kw:
                    i = kw["_index"]
                    mode = "insert" if kw.get("_insert") else "index"
                else:
                    return "append", "-"
            else:
                i = margs[0] if margs else None
                by = kw.get("_by_index", None)
                mode = "by_index" if by is True else "by_value" if by is False else "default"
            if isinstance(i, int) and not isinstance(i, bool):
                cls = "oob" if not -n <= i < n else "neg" if i < 0 else "zero" if i == 0 else "pos"
                if mode in ("by_value", "default") and before_items:
                    vals = [x for x in before_items if isinstance(x, int)]
                    if vals.count(i) > 1:
                        cls += "+dup"
                return mode, cls
            return mode, "obj"
        if family == "map":
            k = margs[0] if margs else None
            keys = [a for a, _ in before_items] if before_items else []
            return "key", ("falsy_" if k == "" else "") + ("existing" if k in keys else "missing")
        x = margs[0] if margs else None
        present = False
        try:
            present = before_items is not None and any(abs_value(x) == abs_value(b) for b in before_items)
        except Exception:
            pass
        return "element", ("falsy_" if x in (0, "") else "") + ("existing" if present else "missing")

    @staticmethod
    def compare(family, akind, expected, got_items, inplace):
        if family == "seq":
            if len(expected) != len(got_items):
                return "length", f"{len(got_items)} != {len(expected)}"
            for i, (e, g) in enumerate(zip(expected, got_items)):
                if not e.equals_real(g):
                    return "element_value", f"position {i}: {strip_addr(repr(abs_value(g)))[:100]} != {strip_addr(repr(e.abs()))[:100]}"
                if inplace and e.src is not None and e.src is not g and abs_value(e.src) == abs_value(g) and elem_is_mutable(g):
                    return "untouched_element_identity", f"position {i}"
            return None
        if family == "map":
            exp = list(expected.items())
            if [k for k, _ in exp] != [k for k, _ in got_items]:
                return "keys_or_order", f"{[k for k, _ in got_items]} != {[k for k, _ in exp]}"
            for (k, e), (_, g) in zip(exp, got_items):
                if not e.equals_real(g):
                    return "element_value", f"key {k!r}: {strip_addr(repr(abs_value(g)))[:100]} != {strip_addr(repr(e.abs()))[:100]}"
                if inplace and e.src is not None and e.src is not g and elem_is_mutable(g):
                    return "untouched_element_identity", f"key {k!r}"
            return None
        want = sorted((repr(e.abs()) for e in expected))
        got = sorted((repr(abs_value(g)) for g in got_items))
        if want != got:
            return "elements", f"{got} != {want}"
        return None


def elem_is_mutable(x):
    return is_spec_instance(x)


CHECK = C06
