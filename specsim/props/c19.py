"""
C19 -- lazy bootstrapping equals eager bootstrapping under every thread interleaving.

Per run: a class spec is drawn from the grammar, materialised lazily for the
simulation and eagerly (bootstrap=True) for the sequential reference.  2 or 3
simulated threads each perform a *first use* (instantiate, __spec_class__ lookup,
dataclass-fields lookup, use through a subclass, hasattr) and then construct an
instance and call a helper, under a seeded schedule (bounded pre-emptions at library
line events, PCT-like priorities, or random switching).  Oracle at the end: no
thread raised; every thread's results equal the eager sequential results; the
canonical description of the lazily bootstrapped classes equals the eager one; no
deadlock; all threads finished within the step cap.
"""

import dataclasses
import inspect
import random

from ..core import strip_addr
from ..grammar import gen_class_spec, good_value
from ..harness import Check
from ..sched import Sched, make_policy, policy_to_json
from ..snap import abs_instance, abs_value, is_spec_instance
from ..world import World

ANCHORED = ("__new__", "__get__", "bootstrap", "build_attr_spec", "for_class", "register_method",
            "register_methods", "get_methods_for_spec_class", "from_attr_value", "invalidation_map", "method")

FIRST_USES = ["instantiate", "spec_class_lookup", "fields_lookup", "via_subclass", "hasattr", "instantiate", "helper_on_class"]


def _is_real_lock(v):
    return type(v).__name__ in ("RLock", "lock") and type(v).__module__ in ("_thread", "threading")


def patch_locks(sched):
    """
    Route every lock the library can see through the scheduler: the `RLock` factory names in
    the two modules that create locks, plus any lock *object* stored in a spec_classes module
    global or on the `_modules_copyable` singleton (a real lock held by a parked thread would
    block the OS thread and never hand the baton back).
    """
    import sys

    import spec_classes.utils.mutation as mu

    sc = sys.modules["spec_classes.spec_class"]
    saved = {"factories": (sc.RLock, mu.RLock), "globals": [], "singleton": mu._modules_copyable.__dict__.get("__instance__")}
    sc.RLock = sched.make_lock
    mu.RLock = sched.make_lock
    for name, mod in list(sys.modules.items()):
        if not name.startswith("spec_classes") or mod is None:
            continue
        for k, v in list(vars(mod).items()):
            if _is_real_lock(v):
                saved["globals"].append((mod, k, v))
                setattr(mod, k, sched.make_lock())
            elif isinstance(v, type) and getattr(v, "__module__", "") == name:
                for ck, cv in list(vars(v).items()):
                    if _is_real_lock(cv):
                        saved["globals"].append((v, ck, cv))
                        setattr(v, ck, sched.make_lock())
    if "__instance__" in mu._modules_copyable.__dict__:
        del mu._modules_copyable.__instance__  # re-created (with a simulated lock) on first use
    return saved


def unpatch_locks(saved):
    import sys

    import spec_classes.utils.mutation as mu

    sc = sys.modules["spec_classes.spec_class"]
    sc.RLock, mu.RLock = saved["factories"]
    for mod, k, v in saved["globals"]:
        setattr(mod, k, v)
    if "__instance__" in mu._modules_copyable.__dict__:
        del mu._modules_copyable.__instance__
    if saved["singleton"] is not None:
        mu._modules_copyable.__instance__ = saved["singleton"]


def describe_class(cls):
    """Canonical, address-free description of a bootstrapped spec class."""
    md = getattr(cls, "__spec_class__", None)  # (forces a bootstrap nobody triggered yet)
    if md is None or type(md).__name__ != "SpecClassMetadata":
        return {"error": f"not bootstrapped: {type(md).__name__}"}
    attrs = {}
    for name, a in md.attrs.items():
        attrs[name] = {
            "type": strip_addr(str(a.type)),
            "default": abs_value(a.default),
            "has_factory": bool(a.default_factory),
            "init": a.init, "repr": a.repr, "compare": a.compare,
            "do_not_copy": a.do_not_copy,
            "invalidated_by": list(a.invalidated_by) if a.invalidated_by else [],
            "owner": a.owner.__name__ if a.owner else None,
            "is_masked": a.is_masked,
            "item_name": a.item_name if a.is_collection else None,
            "prepare": getattr(a.prepare, "__name__", None) if a.prepare else None,
            "prepare_item": getattr(a.prepare_item, "__name__", None) if a.prepare_item else None,
            "helpers": sorted(getattr(h, "__name__", str(h)) for h in (a.helper_methods or ())),
        }
    methods = {}
    for name in sorted(n for n in dir(cls) if not n.startswith("__") or n in (
            "__init__", "__repr__", "__eq__", "__setattr__", "__delattr__", "__getattr__", "__deepcopy__",
            "__spec_class_init__", "__spec_class_repr__", "__spec_class_eq__")):
        try:
            m = inspect.getattr_static(cls, name)
            obj = getattr(cls, name)
        except Exception as e:  # pragma: no cover
            methods[name] = f"error {type(e).__name__}"
            continue
        if callable(obj) and not isinstance(obj, type):
            try:
                sig = strip_addr(str(inspect.signature(obj)))
            except (TypeError, ValueError):
                sig = "?"
            methods[name] = [type(inspect.getattr_static(cls, name)).__name__, sig]
    defaults = {}
    for name in md.attrs:
        if name in cls.__dict__:
            defaults[name] = abs_value(cls.__dict__[name])
    return {
        "name": cls.__name__,
        "key": md.key, "frozen": md.frozen, "do_not_copy": md.do_not_copy,
        "init_overflow_attr": md.init_overflow_attr,
        "owner": md.owner.__name__,
        "attr_order": list(md.attrs),
        "attrs": attrs,
        "methods": methods,
        "class_defaults": defaults,
        "annotations": {k: strip_addr(str(v)) for k, v in getattr(cls, "__annotations__", {}).items()},
        "invalidation_map": {k: sorted(v) for k, v in sorted(md.invalidation_map.items())},
    }


def do_thread_plan(world, plan):
    """Executed by a simulated thread (and, sequentially, by the reference)."""
    classes = world.classes
    role = plan["role"]
    use = plan["first_use"]
    # the class-level first uses aim at the parent or at the subclass itself (whose parent may or may not have been
    # bootstrapped by somebody else by then)
    Host = classes[plan.get("use_cls", "host")] if plan.get("use_cls", "host") in classes else classes["host"]
    out = {}
    if use == "spec_class_lookup":
        md = Host.__spec_class__
        # whoever gets hold of the metadata gets it complete (attribute names in declaration order, key, frozen)
        out["md"] = [type(md).__name__, list(getattr(md, "attrs", {}) or {}), repr(getattr(md, "key", None)),
                     sorted(getattr(md, "annotations", {}) or {})]
        # ... and the class it came from is complete: whoever has seen the metadata finds the generated methods
        out["helpers_visible"] = [n for n in ("update", "transform", "reset", "__spec_class_init__") if not hasattr(Host, n)]
    elif use == "fields_lookup":
        out["fields"] = [f.name for f in dataclasses.fields(Host)] if plan.get("dc") else sorted(Host.__dataclass_fields__)
        out["helpers_visible"] = [n for n in ("update", "transform", "reset", "__spec_class_init__") if not hasattr(Host, n)]
    elif use == "hasattr":
        out["has"] = hasattr(Host, "__spec_class__")
        out["has_attrs"] = list(getattr(Host.__dict__.get("__spec_class__"), "attrs", None) or [])
    elif use == "helper_on_class":
        # a generated helper looked up on the class itself (possibly a subclass that nobody has bootstrapped yet): the
        # descriptor found there replaces itself with the method it builds
        # (before anything triggered a bootstrap there is no helper to find: that is what "lazy" means, so the lookup's
        # own result is not compared -- what it leaves behind is)
        getattr(Host, "update", None)
    elif use == "via_subclass" and "sub" in classes:
        out["subinst"] = abs_instance(classes["sub"](**{k: world.build(v, False) for k, v in plan["sub_kw"].items()}))
    cls = classes[role]
    if use == "pre_inst_helper":
        inst = world.pre_inst  # created before the threads started (see C19._pre_phase)
    else:
        inst = cls(**{k: world.build(v, False) for k, v in plan["kw"].items()})
    out["inst"] = abs_instance(inst)
    out["repr"] = strip_addr(repr(inst))
    if plan.get("first_use") == "helper_on_class":
        # ... and the instance's own top-level helper must still know every attribute of its class
        own = [n for n in getattr(type(inst).__spec_class__, "attrs", {}) if n in inst.__dict__][-1:]
        if own:
            res = inst.update(**{own[0]: inst.__dict__[own[0]]})
            out["update_own_attr"] = abs_instance(res) if is_spec_instance(res) else abs_value(res)
    h = plan.get("helper")
    if h:
        res = getattr(inst, h["m"])(*[world.build(a, False) for a in h["args"]])
        out["helper"] = abs_instance(res) if is_spec_instance(res) else abs_value(res)
        out["inst_after"] = abs_instance(inst)
    return out


class C19(Check):
    PROP = "C19"
    LEVEL = "exploration"
    RUNS = {"quick": 1000, "thorough": 24000}
    PROFILE = {"p_lazy": 1.0, "allow_frozen": False, "allow_class_dnc": False, "n_attrs": (2, 5), "allow_new_shapes": True, "p_sub": 0.6}
    RULE = ("one evaluation = one simulated run: a generated lazily-bootstrapped class (plus optional spec/plain subclass), "
            "2-3 threads each doing a first use + construction + helper call under one seeded schedule (bounded "
            "pre-emptions d<=3 at library line events biased to the bootstrap code, PCT-like priorities, random "
            "switching, pre-emption only at lock acquisitions / releases, or d<=4 targets 'thread t at its n-th visit of "
            "line L / lock operation'; in two set-ups part of the hierarchy's history precedes the threads: parent bootstrapped by a "
            "metadata lookup, or the hierarchy first used through a subclass whose own __new__ bypasses the parent's). The oracle "
            "is the eager sequential twin: thread results (incl. whether the helpers are visible right after a metadata / fields "
            "lookup), canonical class descriptions, the log of user __new__ calls with what each was handed. Non-trivial = at least one pre-emptive switch happened while another thread was inside "
            "bootstrap-related code; distinct_nontrivial = distinct (first-use tuple, sorted pre-emption sites).")
    COMPONENTS_STUBBED = Check.COMPONENTS_STUBBED + [
        "OS thread scheduler (baton passing; pre-emption at sys.settrace line events)",
        "threading.RLock as seen by spec_classes.spec_class and spec_classes.utils.mutation (cooperative SimRLock)"]

    def gen_plan(self, src, spec, world_info):
        n_threads = src.choice([2, 2, 3])
        plans = []
        has_sub = spec.get("sub") is not None
        for t in range(n_threads):
            use = src.choice(FIRST_USES)
            if use == "via_subclass" and not has_sub:
                use = "instantiate"
            role = "sub" if (has_sub and src.chance(0.35)) else "host"
            plans.append({
                "first_use": use, "dc": src.chance(0.5), "role": role,
                "use_cls": "sub" if (has_sub and src.chance(0.5)) else "host",
                "kw": self.gen_kw(src, spec, role), "sub_kw": self.gen_kw(src, spec, "sub") if has_sub else {},
                "helper": self.gen_helper(src, spec, role),
            })
        return plans

    @staticmethod
    def _attrs_for(spec, role):
        attrs = list(spec["host"]["attrs"])
        if role == "sub" and spec.get("sub"):
            attrs = attrs + list(spec["sub"].get("extra", []))
        return attrs

    def gen_kw(self, src, spec, role):
        kw = {}
        h = spec["host"]
        if h["options"].get("key"):
            if h.get("key_default", ["none"])[0] == "none" or src.chance(0.6):
                kw["name"] = good_value(src, "str")
        for a in self._attrs_for(spec, role):
            if a.get("flags", {}).get("init") is False:
                continue
            if src.chance(0.4):
                kw[a["name"]] = good_value(src, a["kind"], small=True)
        return kw

    def gen_helper(self, src, spec, role):
        attrs = [a for a in self._attrs_for(spec, role)]
        if not attrs or src.chance(0.2):
            return None
        a = src.choice(attrs)
        if src.chance(0.3) and a["default"][0] != "none":
            # (resetting an attribute that has neither a default nor a value fails in the eager reference too: wasted run)
            return {"m": f"reset_{a['name']}", "args": []}
        return {"m": f"with_{a['name']}", "args": [good_value(src, a["kind"], small=True)]}

    def drive(self, ctx):
        src = ctx.src
        if ctx.replay:
            c = ctx.case_in
            spec, plans, first = c["spec"], c["plans"], c.get("first", 0)
            recorded = c["switches"]
            pol_json = c.get("policy")
        else:
            spec = gen_class_spec(src, self.PROFILE)
            # force lazy bootstrap in the simulated world
            spec["host"]["options"]["bootstrap"] = False
            if spec.get("sub") and spec["sub"]["kind"] == "spec":
                spec["sub"]["options"]["bootstrap"] = False
            plans = self.gen_plan(src, spec, None)
            first = src.randint(0, len(plans) - 1)
            recorded = None
            if spec.get("sub") and src.chance(0.3):
                # the parent has been bootstrapped by somebody else's earlier use, the subclass has not: one thread
                # looks a helper up on the subclass while another one makes the subclass's first real use
                spec["_pre_parent"] = True
                if src.chance(0.8) and len(plans) >= 2:
                    plans[0].update({"first_use": "helper_on_class", "use_cls": "sub"})
                    plans[1].update({"first_use": "instantiate", "role": "sub", "kw": self.gen_kw(src, spec, "sub")})
                    first = 0  # the lookup starts first (what happens once it is pre-empted is up to the schedule)
            elif spec.get("sub") and spec["sub"]["kind"] == "spec" and len(plans) >= 2 and src.chance(0.45):
                # the hierarchy was first used through the subclass, whose own __new__ never reaches the parent's: the
                # parent is bootstrapped but has not been instantiated yet.  One thread makes the first change to that
                # existing subclass instance while another makes the parent's first direct instance.
                spec["_pre_parent"] = "sub_inst"
                spec["sub"]["own_new"] = "direct"
                if src.chance(0.8):
                    spec["host"]["new_shape"] = src.choice(["base", "mixin_base"])
                helper = None
                for _ in range(8):
                    helper = helper or self.gen_helper(src, spec, "sub")
                plans[0].update({"first_use": "pre_inst_helper", "role": "sub", "kw": self.gen_kw(src, spec, "sub"),
                                 "helper": helper})
                plans[1].update({"first_use": "instantiate", "role": "host", "kw": self.gen_kw(src, spec, "host")})
                first = 0
        if ctx.replay:
            pre = c.get("pre_parent", False)
        else:
            pre = spec.pop("_pre_parent", False)
        ctx.case.update({"spec": spec, "plans": plans, "first": first, "pre_parent": pre})
        self._pre_parent = pre

        # ---- eager sequential reference -----------------------------------------------
        espec = _eager(spec)
        ref_world = World(espec)
        ref_out = []
        ref_exc = None
        try:
            self._pre_phase(ref_world, plans)
            for p in plans:
                ref_out.append(do_thread_plan(ref_world, p))
            ref_desc = {r: describe_class(c) for r, c in ref_world.classes.items() if not r.startswith("__")}
            ref_new = sorted(ref_world.built.new_log)
        except Exception as e:
            ref_exc = e
        if ref_exc is not None:
            # the plan itself is ill-formed for this class (e.g. required key); nothing to compare
            ctx.log("reference_raised", type(ref_exc).__name__, strip_addr(str(ref_exc))[:200])
            ctx.case["switches"] = []
            ctx.bump("reference_raised")
            return

        # ---- sequential lazy run to measure step counts (for placing pre-emptions) --------------
        if not ctx.replay:
            probe = Sched(policy={"shape": "bounded", "preempt_set": set(), "rng": random.Random(0)})
            probe.trace_sites = []
            self._run_world(spec, plans, first, probe)
            seq_steps = probe.step
            hot = [i + 1 for i, (_, site) in enumerate(probe.trace_sites)
                   if site.split(":")[1] in ANCHORED or site.startswith("spec_class.py")]
            shape = src.weighted([("bounded", 2), ("site", 2.5), ("sync", 4), ("pct", 1), ("random", 1)])
            focus = None
            if pre == "sub_inst" and src.chance(0.6):
                # what this set-up adds is the (lock-free) first computation of the subclass's invalidation map racing
                # with the parent's first instantiation
                shape, focus = "site", "spec_class.py:invalidation_map"
            pol = make_policy(src.rng, shape, seq_steps, list(probe.trace_sites) if shape == "site" else hot, len(plans),
                              focus=focus)
            pol_json = policy_to_json(pol)
            sched = Sched(policy=pol, step_cap=50 * max(seq_steps, 100))
            ctx.bump("seq_steps", seq_steps)
        else:
            sched = Sched(recorded=recorded, step_cap=10 ** 7)
        ctx.case["policy"] = pol_json
        if ctx.tier == "thorough" and not ctx.replay and (src.chance(0.5) or getattr(self, "warming", False)):
            ctx.case["opcode"] = True
        if ctx.case_in and ctx.case_in.get("opcode"):
            ctx.case["opcode"] = True
        if ctx.case.get("opcode"):
            sched.opcode_funcs = set(ANCHORED)
        sched.trace_sites = None
        world, outs = self._run_world(spec, plans, first, sched)
        ctx.case["switches"] = sched.switches
        ctx.evaluations += 1
        ctx.bump("steps", sched.step)
        n_pre = sum(1 for s in sched.switches if s[3] == "preempt")
        ctx.bump("preemptions", n_pre)
        ctx.bump("forced_switches", len(sched.switches) - n_pre)
        ctx.log("switches", sched.switches)

        # ---- oracle --------------------------------------------------------------------------
        uses = tuple(p["first_use"] for p in plans)
        if n_pre:
            ctx.cell(uses, tuple(sorted(set(":".join(s.split(":")[:2]) for s in sched.sites_at_switch))))
            ctx.bump("nontrivial_runs")
        if sched.deadlock:
            ctx.violate({"invariant": "no_deadlock", "uses": "+".join(uses)}, {"switches": sched.switches[-6:]})
        if sched.capped:
            ctx.violate({"invariant": "progress_within_cap", "uses": "+".join(uses)}, {"steps": sched.step})
        sub_spec = spec.get("sub") or {}
        bypass = sub_spec.get("kind") == "plain" and sub_spec.get("own_new") == "direct"
        for i, t in enumerate(sched.threads):
            # (label for known finding C19-KF1: the thread used an instance of a PLAIN subclass whose own __new__ never
            # reaches the lazily bootstrapped parent's)
            uses_sub = plans[i]["role"] == "sub" or plans[i]["first_use"] == "via_subclass"
            via = "plain_subclass_bypassing_new" if (bypass and uses_sub) else "-"
            if t.exc is not None and not sched.deadlock and not sched.capped:
                ctx.violate({"invariant": "no_thread_exception", "first_use": plans[i]["first_use"],
                             "exc": type(t.exc).__name__, "via": via},
                            {"thread": i, "msg": strip_addr(str(t.exc))[:300], "plan": plans[i]})
            elif t.exc is None and t.result != ref_out[i]:
                field = _first_diff_key(t.result, ref_out[i])
                if via != "-" and not (field.startswith("subinst") or plans[i]["role"] == "sub"):
                    via = "-"
                ctx.violate({"invariant": "thread_result_equals_eager", "first_use": plans[i]["first_use"],
                             "field": field, "via": via},
                            {"thread": i, "got": _short(t.result), "want": _short(ref_out[i]), "plan": plans[i]})
        if not sched.deadlock and not sched.capped and not any(t.exc is not None for t in sched.threads):
            # every instance (constructed or copied by a helper) is created through the same user-visible __new__ as
            # in the eagerly bootstrapped twin: the lazy hook must hand instance creation back unchanged
            got_new = sorted(world.built.new_log)
            if got_new != ref_new:
                # (C19-KF1 again: instances of the bypassing plain subclass are empty, so the copies a helper would have made --
                # each one a __new__ call -- never happen)
                used_sub = any(p["role"] == "sub" or p["first_use"] == "via_subclass" for p in plans)
                ctx.violate({"invariant": "instance_creation_equals_eager", "new_shape": str(spec["host"].get("new_shape")),
                             "sub": str((spec.get("sub") or {}).get("kind")) + ("+mixin" if (spec.get("sub") or {}).get("mixin_first") else ""),
                             "via": "plain_subclass_bypassing_new" if (bypass and used_sub and len(got_new) < len(ref_new)) else "-"},
                            {"got": got_new[:12], "want": ref_new[:12]})
        if not sched.deadlock and not sched.capped:
            for role, cls in world.classes.items():
                if role.startswith("__"):
                    continue
                got = describe_class(cls)
                want = ref_desc[role]
                if got != want:
                    ctx.violate({"invariant": "class_description_equals_eager", "class": role,
                                 "field": _first_diff_key(got, want)},
                                {"diff": _desc_diff(got, want)})
        ctx.log("outcomes", [[strip_addr(repr(t.exc))[:80] if t.exc else "ok"] for t in sched.threads])

    def _run_world(self, spec, plans, first, sched):
        saved = patch_locks(sched)
        try:
            world = World(spec)
            self._pre_phase(world, plans)
            for i, p in enumerate(plans):
                sched.add(lambda p=p: do_thread_plan(world, p))
            sched.run(first=first)
        finally:
            unpatch_locks(saved)
        return world, [t.result for t in sched.threads]

    def _pre_phase(self, world, plans):
        """What happened to the classes, sequentially, before the threads of the run start."""
        pre = getattr(self, "_pre_parent", False)
        if pre == "sub_inst":
            world.pre_inst = world.classes["sub"](**{k: world.build(v, False) for k, v in plans[0]["kw"].items()})
        elif pre:
            getattr(world.classes["host"], "__spec_class__")  # (a metadata lookup bootstraps the parent only)

    def shrink_candidates(self, case):
        sw = case.get("switches", [])
        pre = [i for i, s in enumerate(sw) if s[3] == "preempt"]
        for i in pre:
            c = dict(case)
            c["switches"] = sw[:i] + sw[i + 1:]
            yield c
        for i, p in enumerate(case.get("plans", [])):
            if p.get("helper"):
                c = dict(case)
                c["plans"] = [dict(q, helper=None) if j == i else q for j, q in enumerate(case["plans"])]
                yield c
            if p.get("kw"):
                for k in p["kw"]:
                    c = dict(case)
                    c["plans"] = [dict(q, kw={a: b for a, b in q["kw"].items() if a != k}) if j == i else q
                                  for j, q in enumerate(case["plans"])]
                    yield c


def _eager(spec):
    import copy

    e = copy.deepcopy(spec)
    e["host"]["options"]["bootstrap"] = True
    if e.get("sub") and e["sub"]["kind"] == "spec":
        e["sub"]["options"]["bootstrap"] = True
    return e


def _first_diff_key(a, b):
    if isinstance(a, dict) and isinstance(b, dict):
        for k in sorted(set(a) | set(b), key=str):
            if a.get(k) != b.get(k):
                sub = _first_diff_key(a.get(k), b.get(k))
                return f"{k}" + (f".{sub}" if sub and k in ("attrs", "methods", "inst", "helper") else "")
    return ""


def _desc_diff(a, b, prefix="", out=None, limit=6):
    out = [] if out is None else out
    if isinstance(a, dict) and isinstance(b, dict):
        for k in sorted(set(a) | set(b), key=str):
            if a.get(k) != b.get(k) and len(out) < limit:
                _desc_diff(a.get(k), b.get(k), f"{prefix}.{k}", out, limit)
    else:
        out.append(f"{prefix}: got {a!r} want {b!r}"[:300])
    return out


def _short(x):
    return strip_addr(repr(x))[:400]


CHECK = C19
