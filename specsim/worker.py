"""
Worker process: a fresh interpreter (own PYTHONHASHSEED) that executes runs.

stdin:  one JSON object per line: {"seed": int} | {"case": {...}} | {"minimise": case, "sig": {...}, "budget": n}
stdout: one JSON result per line, prefixed with "@@ " so that stray prints cannot be mistaken for results.
"""

import faulthandler
import importlib
import json
import os
import sys
import time
import traceback
import warnings


def setup_paths():
    here = os.path.dirname(os.path.dirname(os.path.abspath(__file__)))
    repo = os.environ.get("SPECSIM_REPO", "/repo")
    sys.path.insert(0, here)
    sys.path.insert(0, repo)
    import spec_classes

    real = os.path.realpath(spec_classes.__file__)
    if not real.startswith(os.path.realpath(repo) + os.sep):
        raise SystemExit(f"spec_classes imported from {real}, expected under {repo}")


def load_check(prop):
    mod = importlib.import_module(f"specsim.props.{prop.lower()}")
    return mod.CHECK()


def emit(obj):
    sys.stdout.write("@@ " + json.dumps(obj, default=str) + "\n")
    sys.stdout.flush()


def main():
    setup_paths()
    prop, tier = sys.argv[1], sys.argv[2]
    per_run_timeout = float(os.environ.get("SPECSIM_RUN_TIMEOUT", "120"))
    warnings.simplefilter("ignore")
    check = load_check(prop)
    sample_left = int(os.environ.get("SPECSIM_SAMPLES", "1"))
    from specsim.core import canon

    check.warmup(tier)
    for line in sys.stdin:
        line = line.strip()
        if not line:
            continue
        req = json.loads(line)
        faulthandler.dump_traceback_later(per_run_timeout, exit=True)
        try:
            if "minimise" in req:
                case, tries = check.minimise(req["minimise"], canon(req["sig"]), req.get("budget", 100))
                emit({"minimised": case, "tries": tries})
                continue
            if "case" in req:
                ctx = check.run(seed=req["case"].get("seed"), case=req["case"], tier=tier)
                res = check.result_json(ctx, with_case=True)
                res["replayed"] = True
                emit(res)
                continue
            seed = req["seed"]
            ctx = check.run(seed=seed, tier=tier)
            want_case = bool(ctx.violations) or sample_left > 0
            if sample_left > 0:
                sample_left -= 1
            res = check.result_json(ctx, with_case=want_case)
            if ctx.violations and req.get("verify_replay", True):
                # replay-from-recorded-lists must reproduce the digest (determinism guard)
                ctx2 = check.run(seed=seed, case=ctx.case, tier=tier)
                res["replay_digest"] = check.result_json(ctx2)["digest"]
            emit(res)
        except (KeyboardInterrupt, SystemExit):
            raise
        except BaseException as e:  # harness failure, never a VIOLATION (the library has BaseException-derived errors)
            emit({"harness_error": f"{type(e).__name__}: {e}", "trace": traceback.format_exc()[-3000:],
                  "req": {k: (v if k == "seed" else "...") for k, v in req.items()}})
        finally:
            faulthandler.cancel_dump_traceback_later()


if __name__ == "__main__":
    main()
